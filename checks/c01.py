"""C01 - every symbol decodes back to exactly the content that was given.

Five exhaustive families (DESIGN.md section 5): all byte strings of length <= 2, all strings of length <= n over a
18-symbol class alphabet, all option vectors with <= k deviations from the defaults on 12 contents, the capacity
sweep over every (version, level, mode), all sequences of <= 3 parts from a 12-part menu."""
import itertools

from qrref import tables as T, model as Mo
from . import common as C
from .common import segno

ID = 'C01'
LEVEL = 'exploration'
TITLE = 'Every symbol decodes back to exactly the content that was given'
RULE = ('bounded-exhaustive: (1) all byte strings of length 0..2 [quick: all of length <= 1 and the 44x44 class-boundary pairs], '
        '(2) all strings of length <= n over an 18-character class alphabet, (3) all option vectors with <= k deviations from the '
        'defaults on 12 representative contents, (4) longest-fitting / one-shorter / length-1 content for every (version, level, mode), '
        '(5) all sequences of <= 3 parts from a 12-part menu x micro x eci, (6) byte parts in 2-3 different encodings with eci=True around every capacity, all 45^2 alphanumeric pairs and all 1000 digit triples; every returned symbol is decoded by qrref and the payload '
        'bytes and ECI headers compared with the statement. Non-trivial = a symbol was returned and decoded; distinct = distinct call.')
BOUNDS = {'quick': 'bytes<=1 all + 44^2 pairs; strings n<=3; k<=2 deviations (through make, make_qr and make_micro); capacity sweep on all 44 versions; <=2 parts',
          'thorough': 'all 65793 byte strings <=2; strings n<=4; k<=3 deviations + full product on versions<=2/Micro; all 44 versions; <=3 parts'}
ASSUMPTIONS = ['qrref reader (self-tested on ISO figures); Python stdlib codecs define "the text encoded in <encoding>"',
               'a redundant ECI header announcing ISO-8859-1 is accepted (not forbidden by the statement)']
CHUNK = 24

BOUNDARY = [0x00, 0x1f, 0x20, 0x24, 0x25, 0x2a, 0x2b, 0x2d, 0x2e, 0x2f, 0x30, 0x39, 0x3a, 0x3f, 0x40, 0x41, 0x5a, 0x5b, 0x60,
            0x61, 0x7a, 0x7e, 0x7f, 0x80, 0x81, 0x9f, 0xa0, 0xa1, 0xaa, 0xaf, 0xb0, 0xdf, 0xe0, 0xea, 0xeb, 0xec, 0xf7, 0xfa,
            0xfc, 0xfd, 0xfe, 0xff, 0x0a, 0x98]
ALPHA = ['0', '9', 'A', 'Z', ' ', ':', 'a', '\xe9', 'ｱ', '点', '漢', 'д', '€', '书', '\x00', '\n', '①', '‾']   # last two: cp932-only / Shift-JIS-only

# text that is not in Unicode normalisation form C (the content is given code points, not "characters")
NON_NFC = ['e\u0301', 'A\u030a', '\u2126', '\u212b', '\u212a', '\u1100\u1161', '\uf900', 'caf\u0065\u0301', '\ufb01', '\u00c5\u212b', '\u1e9b\u0323']
REP_CONTENTS = ['0123456789', 'HELLO WORLD', 'hello world', 'h\xe9llo', '点漢', '€ uro', '书读', 42,
                b'\x00\xff\x80', b'\x93\x5f\xe4\xaa', ('12', 'AB', 'cd'), (('点', 8), ('x', 4, 'utf-8'), 7)]
OPT_DOMAINS = [
    ('error', [None, 'L', 'M', 'Q', 'H']),
    ('version', [None, 'M1', 'M2', 'M3', 'M4', 1, 2, 7, 10, 27, 40]),
    ('mode', [None, 'numeric', 'alphanumeric', 'byte', 'kanji', 'hanzi']),
    ('mask', [None, 0, 1, 2, 3, 4, 5, 6, 7]),
    ('encoding', [None, 'utf-8', 'latin1', 'shift_jis', 'cp1252', 'utf-16', 'gb2312', 'iso-8859-1']),
    ('eci', [False, True]),
    ('micro', [None, True, False]),
    ('boost_error', [True, False]),
]
PARTS = ['1', '12', '123', 'A', 'AB', 'ABC', 'a', '点', b'\x81\x40', 7, ('x', 4, 'utf-8'), ('\xe9', None, 'latin1')]


def deviations(domains, k):
    """All option dicts that differ from the defaults (first value of each domain) in at most k positions."""
    names = [n for n, _ in domains]
    for r in range(k + 1):
        for idxs in itertools.combinations(range(len(domains)), r):
            for vals in itertools.product(*[domains[i][1][1:] for i in idxs]):
                yield {names[i]: v for i, v in zip(idxs, vals)}


def gen_cases(tier):
    q = tier == 'quick'
    # family 1
    yield ('call', b'', {})
    for a in range(256):
        yield ('call', bytes([a]), {})
    if q:
        for a in BOUNDARY:
            for b in BOUNDARY:
                yield ('call', bytes([a, b]), {})
    else:
        for a in range(256):
            yield ('bytes2', a)
    # family 2
    n = 3 if q else 4
    for k in range(1, n + 1):
        if k < 3:
            for t in itertools.product(ALPHA, repeat=k):
                yield ('call', ''.join(t), {})
        else:
            for t in itertools.product(ALPHA, repeat=2):
                yield ('strs', ''.join(t), k - 2)
    # family 3
    for ci in range(len(REP_CONTENTS)):
        for kw in deviations(OPT_DOMAINS, 2 if q else 3):
            yield ('rep', ci, kw)
    if not q:
        small = [('error', [None, 'L', 'M', 'Q', 'H']), ('version', [None, 'M1', 'M2', 'M3', 'M4', 1, 2]),
                 ('mode', [None, 'numeric', 'alphanumeric', 'byte', 'kanji', 'hanzi']), ('mask', [None, 0, 3, 7]),
                 ('encoding', [None, 'utf-8', 'shift_jis']), ('eci', [False, True]), ('micro', [None, True, False]),
                 ('boost_error', [True, False])]
        for ci in range(len(REP_CONTENTS)):
            for e in small[0][1]:
                for v in small[1][1]:
                    yield ('repfull', ci, e, v)
    # family 4
    vers = T.ORDER
    for v in vers:
        for lvl in T.levels_of(v):
            for mode in T.MODES:
                if T.mode_supported(mode, v):
                    yield ('cap', v, lvl, mode)
    # family 6: several byte parts in different non-ISO-8859-1 encodings with eci=True, total length around the capacity
    for v in (1, 2, 3, 9, 10) if q else (1, 2, 3, 4, 5, 9, 10, 26, 27):
        for lvl in ('L', 'M', 'Q', 'H'):
            yield ('ecicap', v, lvl)
    # all alphanumeric pairs and all 3-digit groups (every cell of the compaction tables)
    for a in T.ALNUM:
        yield ('alnumrow', a)
    for h in range(10):
        yield ('numrow', h)
    for t in NON_NFC:
        for kw in ({}, {'micro': False}, {'encoding': 'utf-8'}, {'eci': True}, {'mode': 'byte'}, {'error': 'H', 'version': 3}):
            yield ('call', t, kw)
        yield ('call', [t, '1'], {})
    yield ('ecitable',)
    yield ('repeats',)
    yield ('altreq',)
    yield ('aba',)
    # family 5
    for r in (1, 2) if q else (1, 2, 3):
        for idx in itertools.product(range(len(PARTS)), repeat=r):
            yield ('parts', idx)


ENTRY = {'make_qr': segno.make_qr, 'make_micro': segno.make_micro}


def do_call(content, kw, acc, case, entry=None):
    try:
        exp = C.expected_parts(content, kw.get('mode'), kw.get('encoding'))
    except (UnicodeError, LookupError, AttributeError):
        exp = None
    try:
        qr = ENTRY[entry](content, **kw) if entry else segno.make(content, **kw)
    except C.REFUSALS as e:
        acc.eval(case, nontrivial=False, outcome='refused:' + C.exc_name(e))
        acc.count('refused')
        return None
    except Exception as e:
        # not this property's business (C14 judges which exceptions may escape)
        acc.eval(case, nontrivial=False, outcome='exception:' + C.exc_name(e))
        acc.count('other_exception')
        return None
    rep = C.read(qr)
    acc.count('accepted')
    acc.add('designators', qr.designator)
    acc.add('modes', qr.mode)
    acc.eval(case, nontrivial=True, outcome=(qr.designator, qr.mask, tuple((s.mode, s.count, s.eci) for s in rep.segments or ())),
             state=(qr.designator, qr.mode, kw.get('eci', False)))
    acc.sample({'content': content, 'kw': kw, 'designator': qr.designator, 'payload': rep.payload})
    for fam, msg in C.meta_problems(qr, rep):
        acc.violation(fam, '%s  [make(%r, **%r)]' % (msg, content if len(repr(content)) < 60 else '...', kw), case)
    if exp is None:
        acc.violation('accepted-unencodable', 'symbol returned although the text cannot be encoded as requested', case)
        return qr
    for fam, msg in C.judge_payload(rep, exp, bool(kw.get('eci'))):
        fam = '%s/%s/%s%s%s' % (fam, (rep.segments[0].mode if rep.segments else 'none'), 'multi' if len(exp) > 1 else 'single',
                                '/eci' if kw.get('eci') else '', '/micro' if qr.is_micro else '')
        acc.violation(fam, '%s  [make(%r, **%r) -> %s]' % (msg, content if len(repr(content)) < 60 else repr(content)[:60], kw, qr.designator),
                      ('call', content, kw), obs=rep.payload, exp=b''.join(b for b, _ in exp))
        acc.count('bad_' + fam)
    return qr


def run_case(case, acc):
    kind = case[0]
    if kind == 'call':
        do_call(case[1], dict(case[2]), acc, case)
    elif kind == 'bytes2':
        for b in range(256):
            c = bytes([case[1], b])
            do_call(c, {}, acc, ('call', c, {}))
    elif kind == 'strs':
        for t in itertools.product(ALPHA, repeat=case[2]):
            s = case[1] + ''.join(t)
            do_call(s, {}, acc, ('call', s, {}))
    elif kind == 'rep':
        content = REP_CONTENTS[case[1]]
        content = list(content) if isinstance(content, tuple) else content
        do_call(content, dict(case[2]), acc, ('call', content, dict(case[2])))
        # the same option vector through the two convenience entry points (which take no micro / eci-in-micro arguments)
        kw = {k: v for k, v in dict(case[2]).items() if k != 'micro'}
        do_call(content, kw, acc, ('callq', content, kw), entry='make_qr')
        kwm = {k: v for k, v in kw.items() if k != 'eci'}
        do_call(content, kwm, acc, ('callm', content, kwm), entry='make_micro')
    elif kind in ('callq', 'callm'):
        do_call(case[1], dict(case[2]), acc, case, entry='make_qr' if kind == 'callq' else 'make_micro')
    elif kind == 'repfull':
        content = REP_CONTENTS[case[1]]
        content = list(content) if isinstance(content, tuple) else content
        for mode in [None, 'numeric', 'alphanumeric', 'byte', 'kanji', 'hanzi']:
            for mask in [None, 0, 3, 7]:
                for encoding in [None, 'utf-8', 'shift_jis']:
                    for eci in (False, True):
                        for micro in (None, True, False):
                            for boost in (True, False):
                                kw = {}
                                for k, v, d in (('error', case[2], None), ('version', case[3], None), ('mode', mode, None),
                                                ('mask', mask, None), ('encoding', encoding, None), ('eci', eci, False),
                                                ('micro', micro, None), ('boost_error', boost, True)):
                                    if v != d:
                                        kw[k] = v
                                do_call(content, kw, acc, ('call', content, kw))
    elif kind == 'cap':
        _, v, lvl, mode = case
        n = C.max_count(mode, v, lvl)
        for k in sorted({n + 1, n, n - 1, 1}):
            if k < 1:
                continue
            for variant in (0, 1):
                content = C.content_of(mode, k, variant)
                kw = {'version': v, 'error': lvl, 'mode': mode, 'boost_error': False, 'mask': (k + variant) % (4 if T.is_micro(v) else 8)}
                if v == 'M1':
                    kw.pop('error')
                qr = do_call(content, kw, acc, ('call', content, kw))
                if qr is None and k <= n:
                    acc.count('cap_refused_fitting')
                if qr is not None:
                    acc.add('cap_cells', (v, lvl, mode))
    elif kind == 'ecicap':
        _, v, lvl = case
        for encs in (('utf-8', 'iso-8859-5'), ('utf-8', 'iso-8859-5', 'shift_jis'), ('iso-8859-5', 'iso-8859-1', 'utf-8')):
            heads = sum(12 for e in encs if e != 'iso-8859-1')
            room = T.data_bits(v, lvl) - heads - len(encs) * (4 + T.cci_bits('byte', v))
            for d in (-1, 0, 1, 2):
                n = room // 8 + d
                if n < len(encs):
                    continue
                k = len(encs)
                sizes = [n // k + (1 if i < n % k else 0) for i in range(k)]
                content = [(chr(0x61 + i) * sz, 4, enc) for i, (sz, enc) in enumerate(zip(sizes, encs))]
                for kw in ({'eci': True, 'error': lvl, 'mask': 1}, {'eci': True, 'error': lvl, 'version': v, 'mask': 1}):
                    do_call(content, kw, acc, ('call', content, kw))
    elif kind == 'ecitable':
        # every encoding the ECI register (as typed into qrref.tables) knows, announced with eci=True: assignment number in the header
        import codecs
        for enc in sorted(T.ECI_NUM):
            try:
                codecs.lookup(enc)
            except LookupError:
                continue
            for content in ('a', 'ab' * 9):
                kw = {'encoding': enc, 'eci': True, 'mode': 'byte'}
                try:
                    content.encode(enc)
                except (UnicodeError, LookupError):
                    continue
                do_call(content, kw, acc, ('call', content, kw))
                acc.count('eci_table_rows')
    elif kind == 'aba':
        reps = {'numeric': '123', 'alphanumeric': 'ABC', 'byte': 'abc', 'kanji': '\u70b9\u6f22'}
        for a in reps:
            for b in reps:
                if a != b:
                    for content in ([reps[a], reps[b], reps[a]], [reps[a], reps[b], reps[b], reps[a]], [reps[a], reps[a], reps[b]]):
                        for kw in ({}, {'micro': False}, {'version': 2, 'error': 'M'}):
                            do_call(content, kw, acc, ('call', content, kw))
    elif kind == 'altreq':
        # many small parts with an explicitly requested version just above the automatically fitted one (M4 -> 1, 9 -> 10, 26 -> 27)
        for k in range(2, 46):
            content = ['1' if i % 2 == 0 else 'A' for i in range(k)]
            for kw in ({'version': 1, 'error': 'L'}, {'version': 1, 'error': 'M'}, {'version': 2, 'error': 'H'}):
                do_call(content, kw, acc, ('call', content, kw))
        for ver, lvl, ks in ((10, 'H', range(36, 44)), (27, 'H', range(222, 234))):
            for k in ks:
                content = ['1' if i % 2 == 0 else 'A' for i in range(k)]
                do_call(content, {'version': ver, 'error': lvl, 'mask': 0}, acc, ('call', content, {'version': ver, 'error': lvl, 'mask': 0}))
    elif kind == 'repeats':
        # the same (mergeable) part two, three and four times, and a following single call (cached / aliased segments)
        for p_ in PARTS + ['XY', '000', 'AB12', 'ab']:
            for k in (2, 3, 4):
                content = [p_] * k
                do_call(content, {'micro': False}, acc, ('call', content, {'micro': False}))
                do_call(content, {}, acc, ('call', content, {}))
            if not isinstance(p_, tuple):
                do_call(p_, {'micro': False}, acc, ('call', p_, {'micro': False}))
    elif kind == 'alnumrow':
        for b in T.ALNUM:
            for c in ('', '7'):
                s_ = case[1] + b + c
                do_call(s_, {'mode': 'alphanumeric', 'micro': False, 'mask': 2}, acc, ('call', s_, {'mode': 'alphanumeric', 'micro': False, 'mask': 2}))
    elif kind == 'numrow':
        for x in range(100):
            s_ = '%d%02d' % (case[1], x)
            do_call(s_, {'mask': 0}, acc, ('call', s_, {'mask': 0}))
            do_call(s_ + s_[:2], {'mask': 0}, acc, ('call', s_ + s_[:2], {'mask': 0}))
    elif kind == 'parts':
        content = [PARTS[i] for i in case[1]]
        for micro in (None, False):
            for eci in (False, True):
                kw = {}
                if micro is not None:
                    kw['micro'] = micro
                if eci:
                    kw['eci'] = True
                do_call(content, kw, acc, ('call', content, kw))
    else:
        raise ValueError(kind)


def obligations(agg, tier):
    if agg.ctr.get('accepted', 0) < 5000:
        yield 'only %d symbols were returned and decoded' % agg.ctr.get('accepted', 0)
    if not {'numeric', 'alphanumeric', 'byte', 'kanji', 'hanzi', None} <= agg.sets.get('modes', set()):
        yield 'not every mode was observed: %r' % (agg.sets.get('modes'),)
    want = len([1 for c in gen_cases(tier) if c[0] == 'cap'])
    if len(agg.sets.get('cap_cells', ())) < want * 0.9:
        yield 'capacity sweep: only %d of %d (version, level, mode) cells produced a symbol' % (len(agg.sets.get('cap_cells', ())), want)
