"""C02 - geometry, function patterns, format/version information, reported metadata.

Space: ALL 1312 (version, level, mask) triples (exhaustive), each with one (quick) / two (thorough) contents,
plus the automatic mask for every (version, level) (thorough).  Oracle: qrref geometry + BCH/Golay words."""
from qrref import tables as T, layout as Lo
from . import common as C
from .common import segno

ID = 'C02'
LEVEL = 'exploration'
TITLE = 'Geometry, function patterns and format/version info follow ISO 18004'
RULE = ('every (version, level, mask) triple of the 1312 that exist is built with make(version=, error=, mask=, '
        'boost_error=False) and read back module by module; a case is non-trivial when a symbol was returned; '
        'distinct = distinct (version, level, mask, content-kind)')
BOUNDS = {'quick': '1312 triples x 1 content', 'thorough': '1312 triples x 2 contents + automatic mask for all 168 (version, level)'}
ASSUMPTIONS = ['qrref geometry/BCH/Golay tables as cross-validated by the self-test on ISO figures',
               'data content influences function patterns only through the mask (all masks enumerated)']
CHUNK = 4


def triples():
    for v in T.ORDER:
        for lvl in T.levels_of(v):
            for m in range(4 if T.is_micro(v) else 8):
                yield v, lvl, m


def gen_cases(tier):
    kinds = ('short',) if tier == 'quick' else ('short', 'full')
    for v, lvl, m in triples():
        for k in kinds:
            yield ('triple', v, lvl, m, k)
    for v in ('M1', 'M2', 'M3', 'M4', 1):
        for lo in range(0, 1000 if tier == 'quick' else 10000, 100):
            yield ('auto', v, lo)
    yield ('multiseg',)
    if tier == 'thorough':
        for v, lvl in T.all_version_levels():
            yield ('triple', v, lvl, None, 'full')


def pick_content(v, lvl, kind):
    if kind == 'short':
        return '1', 'numeric'
    for mode in ('byte', 'alphanumeric', 'numeric'):
        n = C.max_count(mode, v, lvl)
        if n >= 1:
            return C.content_of(mode, n, variant=1), mode
    raise AssertionError


def auto_case(case, acc):
    """automatic mask choice (incl. ties between candidates): what the format information announces must be what is in the symbol"""
    _, v, lo = case
    for x in range(lo, lo + 100):
        content = str(x)
        for lvl in T.levels_of(v)[:2]:
            kw = {'version': v, 'boost_error': False}
            if lvl is not None:
                kw['error'] = lvl
            try:
                q = segno.make(content, **kw)
            except ValueError:
                continue
            rep = C.read(q)
            c2 = ('auto1', v, content, lvl)
            acc.eval(c2, nontrivial=True, outcome=(rep.mask, rep.ok), state=(v, lvl, 'auto', rep.mask))
            for p in rep.problems:
                acc.violation('auto-mask/' + C.classify_problem(p), 'make(%r, **%r) -> %s: %s' % (content, kw, q.designator, p), c2)
            for fam, msg in C.meta_problems(q, rep):
                acc.violation(fam, msg, c2)
            if rep.ok and rep.payload != content.encode():
                acc.violation('payload', 'payload differs', c2)


def multiseg_case(acc):
    reps = {'numeric': '123', 'alphanumeric': 'ABC', 'byte': 'abc', 'kanji': '\u70b9\u6f22'}
    for a in reps:
        for b in reps:
            for content in ([reps[a], reps[b]], [reps[a], reps[b], reps[a]], [reps[a], reps[a], reps[b], reps[a]], [reps[a], reps[a]]):
                for kw in ({}, {'micro': False}, {'version': 3, 'error': 'Q', 'mask': 5}):
                    try:
                        q = segno.make(content, **kw)
                    except ValueError:
                        continue
                    rep = C.read(q)
                    c2 = ('multiseg',)
                    acc.eval(('multiseg', tuple(content), tuple(sorted(kw))), nontrivial=True, outcome=(q.mode, tuple(s_.mode for s_ in rep.segments or ())),
                             state=('multiseg', a, b, len(content)))
                    for p in rep.problems:
                        if C.classify_problem(p) in ('geometry', 'format-info', 'version-info'):
                            acc.violation(C.classify_problem(p), p, c2)
                    for fam, msg in C.meta_problems(q, rep):
                        acc.violation(fam, '%s  [make(%r, **%r)]' % (msg, content, kw), c2)


def run_case(case, acc):
    if case[0] == 'multiseg':
        return multiseg_case(acc)
    if case[0] == 'auto':
        return auto_case(case, acc)
    if case[0] == 'auto1':
        return auto_case(('auto', case[1], int(case[2])), acc)
    _, v, lvl, m, kind = case
    content, mode = pick_content(v, lvl, kind)
    try:
        q = segno.make(content, version=v, error=lvl, mask=m, boost_error=False, mode=mode)
    except Exception as e:
        acc.eval(case, nontrivial=False, outcome='exc:' + C.exc_name(e))
        acc.violation('refused-valid-triple', 'make(version=%r, error=%r, mask=%r) raised %s: %s'
                      % (v, lvl, m, C.exc_name(e), str(e)[:80]), case)
        return
    rep = C.read(q, parse=True)
    acc.eval(case, nontrivial=True, outcome=(rep.version, rep.level, rep.mask, tuple(rep.format_words or ())),
             state=(v, lvl, m))
    acc.sample({'case': case, 'designator': q.designator, 'mask': q.mask})
    acc.add('triples', (v, lvl, q.mask))
    size = len(q.matrix)
    if size != T.size_of(v) or any(len(r) != size for r in q.matrix):
        acc.violation('geometry', 'size %d for version %r' % (size, v), case, obs=size, exp=T.size_of(v))
    for p in rep.problems:
        fam = C.classify_problem(p)
        if fam in ('geometry', 'format-info', 'version-info'):
            acc.violation(fam, p, case, obs=p)
    if rep.version is not None and rep.level is not None or rep.version == 'M1':
        if (rep.version, rep.level) != (v, lvl):
            acc.violation('format-info', 'requested %r-%r, format information carries %r-%r' % (v, lvl, rep.version, rep.level), case)
        if m is not None and rep.mask != m:
            acc.violation('format-info', 'requested mask %r, format information carries %r' % (m, rep.mask), case)
        # both copies must be the exact BCH word of (level, mask) actually used
        if rep.mask is not None:
            exp = T.format_word(v, lvl, rep.mask if m is None else m)
            for w in rep.format_words or ():
                if w != exp:
                    acc.violation('format-info', 'format copy %04x, expected BCH word %04x' % (w, exp), case, obs=w, exp=exp)
        if not T.is_micro(v) and v >= 7:
            exp = T.version_word(v)
            for w in rep.version_words or ():
                if w != exp:
                    acc.violation('version-info', 'version copy %05x, expected Golay word %05x' % (w, exp), case, obs=w, exp=exp)
        elif rep.version_words:
            acc.violation('version-info', 'version information in a version < 7 symbol', case)
    for fam, msg in C.meta_problems(q, rep):
        acc.violation(fam, msg, case)
    # the data must still be there (guards against a "geometry-only" symbol)
    if rep.ok and rep.payload != content.encode('latin-1'):
        acc.violation('payload', 'payload %r differs from content' % (rep.payload[:40],), case)


def obligations(agg, tier):
    want = set(triples())
    got = agg.sets.get('triples', set())
    missing = want - got
    if missing:
        yield 'triples not decoded: %d of 1312 (e.g. %r)' % (len(missing), sorted(missing, key=repr)[:3])
