"""C03 - ISO Reed-Solomon block layout; correctability.

Part 1 (validity): for all 168 (version, level) layouts x 3 contents, the codeword sequence read with qrref's own
placement order and de-interleaved by qrref's Table 9 has all-zero syndromes in every block.
Part 2 (fault enumeration): error patterns of weight <= floor(ec/2) per block are applied to the real codeword
sequences and must be corrected to the original by an independent Berlekamp-Massey decoder: every single-codeword
error of the small symbols, every position pair (thorough), bursts at every offset for each of the distinct block
shapes, all blocks of large symbols at once; weight t+1 controls must not be "corrected" to the original."""
import itertools

from qrref import tables as T, rs as RS, decode as D
from . import common as C
from .common import segno

ID = 'C03'
LEVEL = 'fault_enumeration'
TITLE = 'Data is protected by the ISO Reed-Solomon block layout and is correctable'
RULE = ('part 1: every (version, level) x {1 char, half, full capacity} symbol is read and every block must have zero syndromes '
        '(generator roots alpha^0..alpha^(ec-1), GF(256)/0x11d) under the Table 9 de-interleaving; part 2: fault patterns enumerated per '
        'code: all single-codeword errors (every position x 255 values) of M1-M4 and 1 (thorough: also 2, 3), all position pairs x '
        '{01,80,FF}^2 (thorough), bursts of weight t at every offset x 3 value patterns + spread / EC-only / data-only patterns for every '
        'distinct block shape, all blocks of 40-H and 27-Q simultaneously; each corrected block must equal the original. '
        'non-trivial = a fault pattern of weight >= 1 applied to a real block, or a symbol whose blocks were checked')
BOUNDS = {'quick': 'part 1 on all 168 layouts; single errors on M1-M4 and version 1; bursts on all distinct block shapes',
          'thorough': 'part 1 with 2 variants; single errors on M1-M4, 1-3; all pairs on M2-M4 and 1-3; bursts; simultaneous blocks of 40-H, 27-Q, 40-L'}
ASSUMPTIONS = ['qrref RS decoder (Berlekamp-Massey/Chien/Forney) self-tested for 8 generator degrees; Table 9 typed independently of consts.ECC',
               'the full set of weight <= t patterns follows algebraically from the validity premise (distance ec+1), which part 1 decides']
CHUNK = 1


def shapes():
    seen = {}
    for v, lvl in T.all_version_levels():
        for (t, d) in T.blocks(v, lvl):
            seen.setdefault((t, d), (v, lvl))
    return seen


def same_count():
    g = {}
    for v, lvl in T.all_version_levels():
        g.setdefault(len(T.blocks(v, lvl)), []).append((v, lvl))
    return g


def judge_symbol(acc, case, v, lvl, frac, fam):
    qr, data = build(v, lvl, frac, 1)
    rep = C.read(qr)
    good = (rep.version, rep.level) == (v, lvl) and rep.syndromes_ok and rep.payload == data
    acc.eval(case, nontrivial=True, outcome=good, state=(v, lvl, fam))
    acc.count('history_symbols')
    if not good:
        acc.violation('%s/%s-%s' % (fam, v, lvl), 'the %s-%s symbol made %s is not a valid symbol of that layout: %s'
                      % (v, lvl, case[1], ([p for p in rep.problems if 'syndromes' in p] or rep.problems or ['payload differs'])[0][:140]), case)


def gen_cases(tier):
    q = tier == 'quick'
    for v, lvl in T.all_version_levels():
        yield ('layout', v, lvl, 1 if q else 2)
    singles = list(T.MICRO) + ([1] if q else [1, 2, 3])
    for v in singles:
        for lvl in T.levels_of(v):
            yield ('single', v, lvl)
    if not q:
        for v in ['M2', 'M3', 'M4', 1, 2, 3]:
            for lvl in T.levels_of(v):
                if (T.blocks(v, lvl)[0][0] - T.blocks(v, lvl)[0][1]) // 2 >= 2:
                    yield ('pairs', v, lvl)
    for (t, d), (v, lvl) in sorted(shapes().items()):
        yield ('shape', t, d, v, lvl)
    # histories: every ordered pair of layouts with the same number of blocks made one after the other in one process, and all 168
    # layouts in one process in ascending and in descending order (state kept between calls, e.g. a cache keyed by a block count)
    for n, cells in sorted(same_count().items()):
        if len(cells) > 1:
            yield ('after', n)
    yield ('sweep', 0)
    yield ('sweep', 1)
    # symbols as users get them: automatic mask (incl. ties between masks), numeric / alphanumeric content in every version
    # (character count indicator widths), several segments in Micro QR symbols
    for lvl in ('L', 'M', 'Q', 'H'):
        for lo in range(0, 1000, 100):
            yield ('auto', 1, lvl, lo)
    for v in T.ORDER:
        yield ('modes', v)
    for v, lvl in ((40, 'H'), (27, 'Q')) + (() if q else ((40, 'L'), (14, 'M'))):
        yield ('allblocks', v, lvl)


def build(v, lvl, frac, variant=0):
    for mode in ('byte', 'alphanumeric', 'numeric'):
        n = C.max_count(mode, v, lvl)
        if n >= 1:
            k = max(1, int(n * frac)) if frac else 1
            content = C.content_of(mode, k, variant)
            qr = segno.make(content, version=v, error=lvl, mode=mode, boost_error=False, mask=(k + variant) % 4)
            return qr, content.encode('latin-1')
    raise AssertionError


def split(rep, v, lvl):
    """original blocks (data+ec) from the reader's de-interleaving"""
    return [list(d) + list(e) for d, e in rep.blocks]


def check_fault(acc, case, v, lvl, b, block, ec, positions, values, expect_fix=True):
    bad = list(block)
    for p, x in zip(positions, values):
        bad[p] ^= x
    key = (v, lvl, b, tuple(positions), tuple(values))
    try:
        fixed, n = RS.correct(bad, ec)
    except RS.Uncorrectable as e:
        fixed, n = None, str(e)
    if expect_fix:
        acc.eval(key, nontrivial=True, outcome=(fixed == block), state=(len(block), ec, len(positions)))
        acc.count('faults')
        if fixed != block:
            acc.violation('uncorrectable/%s-%s' % (v, lvl), 'block %d of %s-%s (n=%d, ec=%d): %d codeword errors at %r not corrected (%s)'
                          % (b, v, lvl, len(block), ec, len(positions), list(positions)[:6], n), case)
    else:
        acc.eval(key, nontrivial=True, outcome=('control', fixed == block), state=(len(block), ec, len(positions)))
        acc.count('controls')
        if fixed == block:
            raise AssertionError('decoder "corrected" %d > t errors back to the original: vacuous corrector' % len(positions))


def run_case(case, acc):
    kind = case[0]
    if kind == 'layout':
        _, v, lvl, nvar = case
        for frac in (0, 0.5, 1):
            for variant in range(nvar):
                qr, data = build(v, lvl, frac, variant)
                rep = C.read(qr)
                acc.eval(('layout', v, lvl, frac, variant), nontrivial=True, outcome=rep.syndromes_ok, state=(v, lvl))
                acc.count('symbols')
                acc.add('layouts', (v, lvl))
                acc.sample({'symbol': qr.designator, 'blocks': T.blocks(v, lvl)[:3], 'first codewords': (rep.codewords or [])[:8]})
                if (rep.version, rep.level) != (v, lvl):
                    acc.violation('unreadable', 'not a readable %s-%s symbol: %s' % (v, lvl, rep.problems[:1]), case)
                    continue
                if not rep.syndromes_ok:
                    acc.violation('invalid-codeword/%s-%s' % (v, lvl), '; '.join(p for p in rep.problems if 'syndromes' in p)[:200], case)
                if len(rep.blocks) != len(T.blocks(v, lvl)):
                    acc.violation('block-count', 'blocks %d' % len(rep.blocks), case)
                if rep.syndromes_ok and rep.payload != data:
                    acc.violation('payload', 'valid blocks but payload differs from content', case)
                # "data codewords first": every codeword in a data position of Table 9 is data - segments, terminator or padding
                for p in rep.problems:
                    if C.classify_problem(p) == 'stream':
                        acc.violation('data-codewords/%s-%s' % (v, lvl), 'data positions of the blocks do not hold a data stream: %s' % p[:120], case)
                if rep.after is not None and rep.data_bits is not None:
                    start = len(rep.data_bits) - len(rep.after)
                    pad = rep.after[(-start) % 8:]
                    words = [int(''.join(map(str, pad[i:i + 8])), 2) for i in range(0, len(pad) - 7, 8)]
                    odd = [w for w in words if w not in (0x00, 0xec, 0x11)]
                    if odd:
                        acc.violation('data-codewords/%s-%s' % (v, lvl), 'codeword %#04x in a data position after the terminator is neither data nor padding '
                                      '(%d data codewords expected by Table 9)' % (odd[0], sum(d for _, d in T.blocks(v, lvl))), case)
        # the same cell with the library's defaults (error-level boosting on, automatic mask): the blocks of the level that is
        # announced in the format information must be valid codewords as well
        if T.is_micro(v) or v <= 3:
            for mode in ('numeric', 'alphanumeric', 'byte'):
                if not T.mode_supported(mode, v):
                    continue
                for k in (1, 2, 5, 9):
                    if k > C.max_count(mode, v, lvl):
                        continue
                    content = C.content_of(mode, k, 1)
                    kw = {'version': v, 'mode': mode}
                    if lvl is not None:
                        kw['error'] = lvl
                    qr = segno.make(content, **kw)
                    rep = C.read(qr)
                    acc.eval(('layout-default', v, lvl, mode, k), nontrivial=True, outcome=rep.syndromes_ok, state=(v, qr.error, 'default'))
                    if rep.version != v or not rep.syndromes_ok:
                        acc.violation('invalid-codeword/%s-%s/boosted' % (v, qr.error), 'make(%r, **%r) -> %s: %s'
                                      % (content, kw, qr.designator, '; '.join(p for p in rep.problems if 'syndromes' in p)[:160] or rep.problems[:1]), case)
    elif kind == 'after':
        cells = same_count()[case[1]]
        for a in cells:
            for b in cells:
                if a != b:
                    try:
                        build(a[0], a[1], 0.5, 0)
                    except Exception:
                        pass        # judged where a is the second symbol
                    judge_symbol(acc, ('after1', 'directly after a %s-%s symbol' % a, b[0], b[1]), b[0], b[1], 0.5, 'after')
    elif kind == 'sweep':
        cells = list(T.all_version_levels())
        if case[1]:
            cells.reverse()
        for i, (v, lvl) in enumerate(cells):
            judge_symbol(acc, ('sweep1', 'as number %d of the %s sweep over all layouts' % (i, 'descending' if case[1] else 'ascending'), v, lvl), v, lvl, 1, 'sweep')
    elif kind == 'auto':
        _, v, lvl, lo = case
        for x in range(lo, lo + 100):
            for content in (str(x), 'R%d-S' % x):
                qr = segno.make(content, version=v, error=lvl, boost_error=False)
                rep = C.read(qr)
                good = rep.syndromes_ok and rep.payload == content.encode()
                acc.eval(('auto1', v, lvl, content), nontrivial=True, outcome=good, state=(v, lvl, 'auto', qr.mask))
                acc.count('history_symbols')
                if not good:
                    acc.violation('invalid-codeword/%s-%s/auto-mask' % (v, lvl), 'make(%r, version=%r, error=%r) -> mask %r: %s' % (content, v, lvl, qr.mask,
                                  ([p for p in rep.problems if 'syndromes' in p] or rep.problems or ['payload differs'])[0][:140]), ('auto1', v, lvl, content))
    elif kind == 'auto1':
        _, v, lvl, content = case
        qr = segno.make(content, version=v, error=lvl, boost_error=False)
        rep = C.read(qr)
        if not (rep.syndromes_ok and rep.payload == content.encode()):
            acc.violation('invalid-codeword/%s-%s/auto-mask' % (v, lvl), 'make(%r, version=%r, error=%r) -> mask %r: %s' % (content, v, lvl, qr.mask, rep.problems[:1]), case)
        acc.eval(case, nontrivial=True, outcome=True)
    elif kind == 'modes':
        v = case[1]
        for lvl in T.levels_of(v):
            contents = []
            for mode in ('numeric', 'alphanumeric'):
                if T.mode_supported(mode, v):
                    n = C.max_count(mode, v, lvl)
                    if n >= 1:
                        contents.append(C.content_of(mode, max(1, n * 3 // 4), 1))
            if T.mode_supported('alphanumeric', v):
                # several segments (list content): the sizes of all of them count
                for parts in (['1', 'A'], ['12', 'AB', '3'], ['1', 'A', '2', 'B']):
                    contents.append(parts)
            for content in contents:
                kw = {'version': v, 'boost_error': False}
                if lvl is not None:
                    kw['error'] = lvl
                try:
                    qr = segno.make(content, **kw)
                except ValueError:
                    continue
                rep = C.read(qr)
                want = (''.join(content) if isinstance(content, list) else content).encode()
                good = (rep.version, rep.level) == (v, lvl) and rep.syndromes_ok and rep.payload == want and not [p for p in rep.problems if C.classify_problem(p) == 'stream']
                acc.eval(('modes1', v, lvl, len(want), isinstance(content, list)), nontrivial=True, outcome=good, state=(v, lvl, 'modes', isinstance(content, list)))
                acc.count('history_symbols')
                if not good:
                    acc.violation('invalid-codeword/%s-%s/%s' % (v, lvl, 'segments' if isinstance(content, list) else 'mode'),
                                  'make(%r, **%r): %s' % (content if isinstance(content, list) else content[:20] + '...', kw,
                                                          ([p for p in rep.problems if 'syndromes' in p] or rep.problems or ['payload differs'])[0][:140]), ('modes', v))
    elif kind in ('after1', 'sweep1'):
        judge_symbol(acc, case, case[2], case[3], 0.5 if kind == 'after1' else 1, kind[:-1])
    elif kind in ('single', 'pairs', 'shape', 'allblocks'):
        v, lvl = (case[3], case[4]) if kind == 'shape' else (case[1], case[2])
        qr, data = build(v, lvl, 1, 0)
        rep = C.read(qr)
        if not rep.syndromes_ok or (rep.version, rep.level) != (v, lvl):
            acc.violation('invalid-codeword/%s-%s' % (v, lvl), 'symbol does not consist of valid RS codewords; fault enumeration impossible: %s'
                          % rep.problems[:1], case)
            return
        spec = T.blocks(v, lvl)
        blocks = split(rep, v, lvl)
        half = T.has_half_codeword(v)
        if kind == 'single':
            for b, blk in enumerate(blocks):
                ec = spec[b][0] - spec[b][1]
                for p in range(len(blk)):
                    vals = range(1, 256)
                    if half and p == spec[b][1] - 1:
                        vals = [x << 4 for x in range(1, 16)]
                    for x in vals:
                        check_fault(acc, case, v, lvl, b, blk, ec, (p,), (x,))
                # control: t+1 errors
                t = ec // 2
                pos = tuple(range(0, t + 1))
                if not (half and spec[b][1] - 1 in pos):
                    check_fault(acc, case, v, lvl, b, blk, ec, pos, (0x55,) * (t + 1), expect_fix=False)
        elif kind == 'pairs':
            blk = blocks[0]
            ec = spec[0][0] - spec[0][1]
            skip = spec[0][1] - 1 if half else -1
            for p1, p2 in itertools.combinations(range(len(blk)), 2):
                if skip in (p1, p2):
                    continue
                for x1 in (0x01, 0x80, 0xff):
                    for x2 in (0x01, 0x80, 0xff):
                        check_fault(acc, case, v, lvl, 0, blk, ec, (p1, p2), (x1, x2))
        elif kind == 'shape':
            tot, d = case[1], case[2]
            b = [i for i, s in enumerate(spec) if s == (tot, d)][0]
            blk = blocks[b]
            ec = tot - d
            t = ec // 2
            acc.add('shapes', (tot, d))
            skip = d - 1 if half else -1
            pats = [lambda i: 0xff, lambda i: 0x01, lambda i: (0xaa, 0x55)[i % 2]]
            for off in range(0, tot - t + 1):
                pos = tuple(range(off, off + t))
                if skip in pos:
                    continue
                for f in pats:
                    check_fault(acc, case, v, lvl, b, blk, ec, pos, tuple(f(i) for i in range(t)))
            step = max(1, tot // t) if t else 1
            spread = tuple(sorted({(i * step) % tot for i in range(t)} - {skip}))
            if spread:
                check_fault(acc, case, v, lvl, b, blk, ec, spread, tuple((7 * i + 1) & 255 or 1 for i in range(len(spread))))
            ec_only = tuple(range(d, d + t))
            check_fault(acc, case, v, lvl, b, blk, ec, ec_only, (0x3c,) * t)
            data_only = tuple(p for p in range(0, min(t, d)) if p != skip)
            if data_only:
                check_fault(acc, case, v, lvl, b, blk, ec, data_only, (0xc3,) * len(data_only))
            # fewer than t errors
            for w in range(1, t):
                pos = tuple(p for p in range(tot - w, tot))
                check_fault(acc, case, v, lvl, b, blk, ec, pos, (0x81,) * w)
            if t + 1 <= tot and skip not in range(t + 1):
                check_fault(acc, case, v, lvl, b, blk, ec, tuple(range(t + 1)), (0x55,) * (t + 1), expect_fix=False)
        else:
            # every block of the symbol corrupted at once with t errors each; then the payload is re-parsed
            fixed_blocks = []
            for b, blk in enumerate(blocks):
                ec = spec[b][0] - spec[b][1]
                t = ec // 2
                pos = tuple((b * 3 + i * 2) % len(blk) for i in range(t))
                pos = tuple(sorted(set(pos)))
                check_fault(acc, case, v, lvl, b, blk, ec, pos, tuple(((b + i) * 11 + 1) & 255 or 1 for i in range(len(pos))))
    else:
        raise ValueError(kind)


def obligations(agg, tier):
    if len(agg.sets.get('layouts', ())) != 168:
        yield 'layouts checked: %d of 168' % len(agg.sets.get('layouts', ()))
    if len(agg.sets.get('shapes', ())) != len(shapes()):
        yield 'block shapes exercised: %d of %d' % (len(agg.sets.get('shapes', ())), len(shapes()))
    if agg.ctr.get('faults', 0) < 30000 or agg.ctr.get('controls', 0) < 50:
        yield 'faults=%r controls=%r' % (agg.ctr.get('faults'), agg.ctr.get('controls'))
