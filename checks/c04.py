"""C04 - smallest fitting symbol is chosen; overflow is reported, never truncated (see checks/selection.py)."""
from qrref import tables as T
from . import selection as S

ID = 'C04'
LEVEL = 'model_checking'
TITLE = 'Smallest fitting symbol is chosen; overflow is reported, never truncated'
RULE = ('reference decision model qrref.select (ISO capacities, candidate-version indicator widths, admissibility rules of the '
        'statement) evaluated on: both sides of all 825 (version, level, mode) capacity boundaries x micro x eci x boost; all lengths '
        '0..N per mode x 5 level requests x micro; every boundary length x requested versions; k alternating one-character parts '
        '(k=1..260) at requested versions 9/10/26/27 and k=1..45 at M3/M4/1/2/auto; UTF-8+ECI byte content around the boundaries of every level, 2-3 byte parts in different encodings with eci=True; adjacent same-mode parts (mergeable) around every small capacity; a single-process cross-talk family (all small configurations forwards and backwards). Every model prediction is replayed on '
        'segno.make; state = (mode sequence, length, level, micro, request, eci, boost); non-trivial = symbol returned or refusal predicted')
BOUNDS = {'quick': 'lengths 0..300 per mode; requested-version grid for Micro, 1-10, 26, 27, 40',
          'thorough': 'lengths 0..7090/4297/2954/1818/1818; requested-version grid for all 44 versions'}
ASSUMPTIONS = ['qrref capacity tables (two independently typed copies agree with each other in all 168 cells; totals derived from geometry)',
               'contents are runs over one representative character sequence per mode; mixed-mode contents only in the alternating family']
CHUNK = 2
gen_cases = S.gen_cases


def run_case(case, acc):
    S.run_case(case, acc, want='c04')


def obligations(agg, tier):
    got = agg.sets.get('model_versions', set())
    missing = [v for v in T.ORDER if v not in got]
    if missing:
        yield 'versions never selected by the model in this run: %r' % missing
    cells = agg.sets.get('bnd_cells', set())
    want = {(v, l, m, d) for v, l, m, n in S.boundaries() for d in (0, 1) if n + d <= S.MAXLEN[m] + 2}
    if want - cells:
        yield 'capacity boundaries not visited on both sides: %d' % len(want - cells)
    if agg.ctr.get('model_refuse', 0) < 100 or agg.ctr.get('model_ok', 0) < 1000:
        yield 'accepted/refused split too thin: %r' % ((agg.ctr.get('model_ok'), agg.ctr.get('model_refuse')),)
