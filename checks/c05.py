"""C05 - error level never below the request; boosting never changes the version (see checks/selection.py)."""
from qrref import tables as T
from . import selection as S
from . import common as C
from .common import segno

ID = 'C05'
LEVEL = 'model_checking'
TITLE = 'Error level is never below the request; boosting never changes the version'
RULE = ('same enumeration as C04 (capacity boundaries both sides, all lengths, requested versions, alternating parts); the model predicts '
        'the level (highest level of the chosen version that still holds the content when boosting single-part content, else the '
        'requested/default level); compared with QRCode.error and with the level bits read from the format information; in addition '
        'for every configuration version(boost=True) == version(boost=False). state = configuration tuple; non-trivial = symbol returned')
BOUNDS = {'quick': 'lengths 0..300 per mode plus exact-fit lengths of every level of every version',
          'thorough': 'all lengths up to 7090/4297/2954/1818/1818'}
ASSUMPTIONS = ['qrref capacity tables; "single-part" = content given as one str/bytes/int']
CHUNK = 2


def gen_cases(tier):
    for c in S.gen_cases(tier):
        yield c
    yield ('entries',)
    for v, lvl, mode, n in S.boundaries():
        if tier == 'quick' and not (T.is_micro(v) or v <= 10 or v in (26, 27, 40)):
            continue
        yield ('boostpair', v, lvl, mode, n)


def entries(acc):
    """make_qr / make_micro must treat error and boost_error exactly like make(micro=False / True)"""
    for mode in ('numeric', 'alphanumeric', 'byte', 'kanji'):
        for n in list(range(1, 25)) + [40, 80]:
            content, parts, eb = S.content_for(mode, n)
            for lvl in (None, 'L', 'M', 'Q', 'H'):
                for boost in (True, False):
                    for name, fn, micro in (('make_qr', segno.make_qr, False), ('make_micro', segno.make_micro, True)):
                        kw = {'mask': 0}
                        if lvl is not None:
                            kw['error'] = lvl
                        if not boost:
                            kw['boost_error'] = False
                        try:
                            a = fn(content, **kw)
                            ra = (a.version, a.error)
                        except ValueError:
                            ra = 'refused'
                        try:
                            b = segno.make(content, micro=micro, **kw)
                            rb = (b.version, b.error)
                        except ValueError:
                            rb = 'refused'
                        acc.eval(('entry', name, mode, n, lvl, boost), nontrivial=ra != 'refused', outcome=(ra, rb), state=(name, mode, n, lvl, boost))
                        if ra != rb:
                            acc.violation('entry-point/%s' % name, '%s(<%d %s chars>, **%r) -> %r but make(micro=%r) -> %r' % (name, n, mode, kw, ra, micro, rb),
                                          ('entries',))
                        elif ra != 'refused' and not boost and lvl is not None and ra[1] != lvl:
                            acc.violation('level/noboost/%s' % name, '%s(..., error=%r, boost_error=False) returned level %r' % (name, lvl, ra[1]), ('entries',))


def seq_entries(acc):
    for mode in ('numeric', 'alphanumeric', 'byte'):
        for n in (1, 3, 6, 10, 14):
            content, parts, eb = S.content_for(mode, n)
            for v in (1, 2, 5):
                for lvl in (None, 'L', 'M', 'Q', 'H'):
                    for boost in (True, False):
                        kw = {'version': v}
                        if lvl is not None:
                            kw['error'] = lvl
                        if not boost:
                            kw['boost_error'] = False
                        try:
                            seq = segno.make_sequence(content, **kw)
                        except ValueError:
                            continue
                        if len(seq) != 1:
                            continue
                        q = seq[0]
                        try:
                            ref = segno.make(content, micro=False, **kw)
                            want = (ref.version, ref.error)
                        except ValueError:
                            want = None
                        acc.eval(('seq-entry', mode, n, v, lvl, boost), nontrivial=True, outcome=(q.version, q.error), state=('seq-entry', mode, n, v, lvl, boost))
                        if want is not None and (q.version, q.error) != want:
                            acc.violation('entry-point/make_sequence', 'make_sequence(<%d %s chars>, **%r)[0] is %s-%s, make() gives %s-%s'
                                          % (n, mode, kw, q.version, q.error, want[0], want[1]), ('entries',))
                        if not boost and q.error != (lvl or 'L'):
                            acc.violation('level/noboost/make_sequence', 'make_sequence(..., **%r) returned level %r' % (kw, q.error), ('entries',))


def run_case(case, acc):
    if case[0] == 'entries':
        seq_entries(acc)
        return entries(acc)
    if case[0] == 'boostpair':
        _, v, lvl, mode, n = case
        for k in (n, n + 1, max(0, n - 1)):
            content, parts, eb = S.content_for(mode, k)
            for req in (None, v):
                for micro in (None, False):
                    res = []
                    for boost in (True, False):
                        kw = S.base_kw(mode)
                        if lvl is not None:
                            kw['error'] = lvl
                        if req is not None:
                            kw['version'] = req
                        if micro is not None:
                            kw['micro'] = micro
                        kw['boost_error'] = boost
                        qr, exc = S.call(content, kw)
                        res.append(qr.version if qr is not None else 'refused:' + C.exc_name(exc))
                    acc.eval(('bp', mode, k, lvl, req, micro), nontrivial=not str(res[0]).startswith('refused'), outcome=tuple(res),
                             state=(mode, k, lvl, req, micro))
                    if res[0] != res[1]:
                        acc.violation('boost-changes-version', 'version with boost_error=True is %r, without %r' % (res[0], res[1]),
                                      ('boostpair', v, lvl, mode, n), obs=res)
        return
    S.run_case(case, acc, want='c05')


def obligations(agg, tier):
    got = agg.sets.get('model_levels', set())
    for v in T.ORDER:
        for lvl in T.levels_of(v):
            if (v, lvl) not in got:
                yield 'level %r of version %r never predicted' % (lvl, v)
