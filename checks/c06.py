"""C06 - requested mask is used; the automatic mask minimises the ISO penalty score (QR) / maximises the edge score (Micro).

Automatic: from the emitted symbol qrref clears format/version areas and the dark module, unmasks, re-masks with all
8/4 patterns (its own Table 10 conditions on its own encoding-region map), scores each candidate with its own N1..N4 /
Micro score and requires QRCode.mask to be the lowest-numbered optimum.  Requested: all 8/4 masks of the same content
must unmask (with qrref's pattern k) to the identical data stream with zero RS syndromes."""
import itertools

from qrref import tables as T, mask as M, layout as Lo
from . import common as C
from .common import segno

ID = 'C06'
LEVEL = 'exploration'
TITLE = 'Requested mask is used; automatic mask minimises the ISO penalty score'
RULE = ('automatic: all 8 (QR) / 4 (Micro) mask candidates of every explored symbol are rebuilt and scored independently; explored symbols: '
        'every (version, level) x 3 contents, all numeric strings 0..9999 at 1-L and 1-H, all 5-digit strings at M4-M, all 1-/2-character alphanumeric strings at '
        'M2-M4, every symbol of 2-5 symbol Structured Append sequences [thorough: all 5-digit strings at versions 1 and 2, all 2-byte contents at M3/M4, all 40 versions]. requested: every mask '
        'k for every (version, level): unmasking with qrref pattern k must give the same data stream for all k and valid RS blocks. '
        'non-trivial = symbol returned and all candidates scored')
BOUNDS = {'quick': 'versions <= 20 for the per-cell family', 'thorough': 'all 40 versions; 5-digit strings; all 2-byte contents at M3/M4'}
ASSUMPTIONS = ['format/version areas and the dark module are light during evaluation (statement); the symbol is surrounded by light modules for N3; '
               'N4 at dark ratios that are exact multiples of 5% is accepted under either boundary convention']
CHUNK = 1


def gen_cases(tier):
    q = tier == 'quick'
    for v, lvl in T.all_version_levels():
        if q and not T.is_micro(v) and v > 20:
            continue
        yield ('cell', v, lvl)
    for lvl in ('L', 'H'):
        for lo in range(0, 10000, 100):
            yield ('num', 1, lvl, lo, lo + 100, 0)
    for lo in range(0, 100000, 1000):
        yield ('num', 'M4', 'M', lo, lo + 1000, 5)
    # version 2 and 3 symbols in bulk: dark ratios exactly at / one module off a 5% step are rare (about 1 in 10^4 symbols)
    for v, lvl, width in ((2, 'M', 38), (3, 'Q', 50)):
        for lo in range(0, 16000 if q else 64000, 500):
            yield ('num', v, lvl, lo, lo + 500, width)
    if not q:
        for lvl in ('L', 'Q'):
            for lo in range(0, 100000, 1000):
                yield ('num', 'M4', lvl, lo, lo + 1000, 5)
        for lvl in ('L', 'M', 'Q'):
            for lo in range(0, 100000, 250):
                yield ('num', 1 if lvl != 'Q' else 2, lvl, lo, lo + 250, 5)
    for v in ('M2', 'M3', 'M4'):
        for lvl in T.levels_of(v):
            for a in T.ALNUM:
                yield ('alnum', v, lvl, a)
    if not q:
        for v, lvl in (('M3', 'L'), ('M4', 'M')):
            for a in range(256):
                yield ('b2', v, lvl, a)
    for v, lvl in T.all_version_levels():
        if q and not (T.is_micro(v) or v <= 10 or v in (27, 40)):
            continue
        yield ('req', v, lvl)
    # every symbol of a Structured Append sequence chooses its own mask
    for v in (1, 2, 3) if q else (1, 2, 3, 5, 7, 10):
        for lvl in ('L', 'M', 'Q', 'H'):
            yield ('seq', v, lvl)


def judge_auto(qr, acc, case):
    v = qr.version
    m = [list(r) for r in qr.matrix]
    res = M.analyse(m, v, qr.mask)
    acc.eval(case, nontrivial=True, outcome=(qr.mask, tuple(res['totals'])), state=(v, qr.error, qr.mask))
    acc.add('chosen_micro' if T.is_micro(v) else 'chosen_qr', qr.mask)
    acc.count('auto')
    if res['tie']:
        acc.count('ties')
    acc.sample({'case': case, 'chosen': qr.mask, 'scores': res['totals']})
    fv, fl, fm, fw = C.D.read_format(qr.matrix)
    if fm != qr.mask:
        acc.violation('format-mask', 'QRCode.mask=%r but the format information carries %r' % (qr.mask, fm), case)
    if T.is_micro(v) or v <= 2:
        rep = C.read(qr, parse=False)
        acc.count('auto_decoded')
        if not rep.syndromes_ok:
            acc.violation('announced-mask-not-applied', '%s: unmasking with the announced mask %r does not give valid RS blocks (another mask was applied?)'
                          % (qr.designator, qr.mask), case)
    if qr.mask not in res['best']:
        acc.violation('not-optimal/%s' % ('micro' if T.is_micro(v) else 'qr'),
                      'mask %r chosen for %s; scores %r -> lowest-numbered optimum is %r' % (qr.mask, qr.designator, res['totals'], sorted(res['best'])),
                      case, obs=qr.mask, exp=sorted(res['best']))


def auto(content, kw, acc, case):
    try:
        qr = segno.make(content, **kw)
    except C.REFUSALS:
        acc.eval(case, nontrivial=False, outcome='refused')
        return
    judge_auto(qr, acc, case)


def contents_for(v, lvl):
    out = []
    for mode, frac in (('numeric', 0), ('alphanumeric', 0.5), ('byte', 1)):
        if not T.mode_supported(mode, v):
            mode = 'numeric'
        n = C.max_count(mode, v, lvl)
        k = max(1, int(n * frac)) if frac else min(n, 3)
        out.append((C.content_of(mode, k, 1), mode))
    return out


def run_case(case, acc):
    kind = case[0]
    if kind == 'cell':
        _, v, lvl = case
        for i, (content, mode) in enumerate(contents_for(v, lvl)):
            kw = {'version': v, 'error': lvl, 'mode': mode, 'boost_error': False}
            auto(content, kw, acc, ('auto1', content, kw))
    elif kind == 'auto1':
        auto(case[1], dict(case[2]), acc, case)
    elif kind == 'num':
        _, v, lvl, lo, hi, width = case
        for x in range(lo, hi):
            for s in ({str(x)} if width else {str(x), '%02d' % x, '%03d' % x, '%04d' % x}):
                s = s.zfill(width) if width else s
                if width > 5:
                    s = (str(x * 7919 + 13) * 8)[:width]        # spread the variation over the whole content
                kw = {'version': v, 'error': lvl, 'boost_error': False}
                auto(s, kw, acc, ('auto1', s, kw))
    elif kind == 'alnum':
        _, v, lvl, a = case
        kw = {'version': v, 'error': lvl, 'boost_error': False, 'mode': 'alphanumeric'}
        auto(a, kw, acc, ('auto1', a, kw))
        for b in T.ALNUM:
            auto(a + b, kw, acc, ('auto1', a + b, kw))
    elif kind == 'b2':
        _, v, lvl, a = case
        kw = {'version': v, 'error': lvl, 'boost_error': False, 'mode': 'byte'}
        for b in range(256):
            c = bytes([a, b])
            auto(c, kw, acc, ('auto1', c, kw))
    elif kind == 'seq':
        _, v, lvl = case
        per = C.max_count('alphanumeric', v, lvl, extra_bits=20)
        for nsym in (2, 3, 5):
            for variant in (0, 1):
                content = C.content_of('alphanumeric', max(nsym, (per - 3) * nsym), variant)
                variants = [{'symbol_count': nsym, 'error': lvl, 'boost_error': False}, {'symbol_count': nsym, 'error': lvl, 'mask': 5}]
                if nsym == 2:
                    # content that fits ONE symbol of the requested version (the sequence has a single member)
                    variants += [{'version': v, 'error': lvl, 'mask': 5, '_short': True}, {'version': v, 'error': lvl, '_short': True}]
                for kw in variants:
                    kw = dict(kw)
                    if kw.pop('_short', False):
                        content = C.content_of('alphanumeric', max(1, C.max_count('alphanumeric', v, lvl) - 3 - variant), variant)
                    try:
                        seq = segno.make_sequence(content, **kw)
                    except C.REFUSALS:
                        continue
                    for i, qr in enumerate(seq):
                        c2 = ('seq1', v, lvl, nsym, variant, kw, i)
                        if 'mask' in kw:
                            fm = C.D.read_format(qr.matrix)[2]
                            acc.eval(c2, nontrivial=True, outcome=fm, state=('seq-req', qr.version, i))
                            if fm != 5 or qr.mask != 5:
                                acc.violation('sequence-requested-mask', 'symbol %d of the sequence carries mask %r, requested 5' % (i, fm), case)
                        else:
                            judge_auto(qr, acc, ('seq', v, lvl))
    elif kind == 'req':
        _, v, lvl = case
        nm = 4 if T.is_micro(v) else 8
        for content, mode in contents_for(v, lvl)[1:]:
            streams = []
            for k in range(nm):
                kw = {'version': v, 'error': lvl, 'mode': mode, 'boost_error': False, 'mask': k}
                qr = segno.make(content, **kw)
                m = qr.matrix
                # the same request through the other entry points and spellings of the mask gives the same symbol
                if T.is_micro(v) or v <= 3 or v in (7, 27):
                    for name, fn, kw2 in (('make_micro' if T.is_micro(v) else 'make_qr', segno.make_micro if T.is_micro(v) else segno.make_qr, kw),
                                          ('make(mask=str)', segno.make, dict(kw, mask=str(k))),
                                          ('make(version omitted)', segno.make, dict({x: y for x, y in kw.items() if x != 'version'}, micro=T.is_micro(v)))):
                        try:
                            q2 = fn(content, **kw2)
                        except Exception as e:
                            acc.violation('requested-mask-entry/%s' % name.split('(')[0], '%s(mask=%r) for %s-%s raised %s' % (name, k, v, lvl, C.exc_name(e)), case)
                            continue
                        acc.count('entries')
                        if name != 'make(version omitted)' and q2.matrix != m or C.D.read_format(q2.matrix)[2] != k or q2.mask != k:
                            acc.violation('requested-mask-entry/%s' % name.split('(')[0], '%s with mask=%r for %s-%s gives a symbol with mask %r / format information %r%s'
                                          % (name, k, v, lvl, q2.mask, C.D.read_format(q2.matrix)[2], '' if q2.matrix == m else ', not the symbol make() returns'), case)
                fv, fl, fm, fw = C.D.read_format(m)
                acc.eval(('req', v, lvl, mode, k), nontrivial=True, outcome=(fm,), state=(v, lvl, k))
                acc.count('requested')
                if fm != k or qr.mask != k:
                    acc.violation('requested-mask-not-announced', 'mask=%d requested for %s-%s; object says %r, format information %r'
                                  % (k, v, lvl, qr.mask, fm), case)
                streams.append(M.unmasked_data(m, v, k))
                if k in (0, nm - 1):
                    rep = C.read(qr)
                    if not rep.syndromes_ok or rep.payload != content.encode('latin-1'):
                        acc.violation('requested-mask-unreadable', 'symbol with requested mask %d does not decode: %s' % (k, rep.problems[:1]), case)
                # function patterns untouched by the mask
                cls, val = Lo.function_map(v)
                size = len(m)
                for i in range(size):
                    for j in range(size):
                        if val[i][j] is not None and m[i][j] != val[i][j]:
                            acc.violation('mask-applied-outside-encoding-region', 'function module (%d,%d) altered with mask %d' % (i, j, k), case)
                            break
            if any(s != streams[0] for s in streams[1:]):
                bad = [k for k, s in enumerate(streams) if s != streams[0]]
                acc.violation('requested-mask-pattern', 'unmasking with ISO pattern k does not give the same data for masks %r of %s-%s' % (bad, v, lvl), case)
    else:
        raise ValueError(kind)


def obligations(agg, tier):
    if agg.sets.get('chosen_qr', set()) != set(range(8)):
        yield 'QR masks chosen automatically: %r' % sorted(agg.sets.get('chosen_qr', ()))
    if agg.sets.get('chosen_micro', set()) != set(range(4)):
        yield 'Micro masks chosen automatically: %r' % sorted(agg.sets.get('chosen_micro', ()))
    if agg.ctr.get('ties', 0) < 1:
        yield 'no symbol with tied optimal masks was seen'
