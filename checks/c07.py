"""C07 - most compact applicable mode is chosen; a requested mode is honoured or refused.

Exhaustive small scope: all 1- and 2-byte inputs (thorough: all 65536 pairs), all 3-byte strings over an 8-byte class
alphabet, every BMP code point as text (thorough), each x requested mode and x Micro/QR versions for availability.
Oracle: three-valued model predicate over the encoded bytes (qrref.model) + the mode indicator read from the symbol."""
import contextlib
import io
import itertools

from qrref import tables as T, model as Mo
from . import common as C
from .common import segno

ID = 'C07'
LEVEL = 'exploration'
TITLE = 'Most compact applicable mode is chosen; a requested mode is honoured or refused'
RULE = ('exhaustive over ALL byte strings of length 1..2, length 3 over an 8-byte alphabet, 4-6 byte strings made of a valid kanji/hanzi character and every class-boundary pair in every position, and over '
        'single code points (quick: class representatives and neighbours of every codec boundary; thorough: the whole BMP), each with '
        'mode=None and with each of the five requested modes, with versions M1..M4/1 for availability and through make / make_qr / make_micro; the automatic mode must be '
        'the first applicable of numeric, alphanumeric, kanji, byte per the model predicate; a requested mode must be accepted iff '
        'representable and available, else ValueError; QRCode.mode must equal the decoded mode indicator. non-trivial = symbol returned')
BOUNDS = {'quick': 'all 256 + 65536 byte inputs x 6 mode requests, 8^3 triples, ~700 code points', 'thorough': 'same byte inputs, all 65536 BMP code points'}
ASSUMPTIONS = ['"valid double-byte Shift JIS character" is three-valued: assigned JIS X 0208 pairs must be kanji, pairs outside '
               '8140-9FFC/E040-EBBF or with trail byte < 0x40 must not, the rest (trail 7F/FD-FF, unassigned cells) may be either',
               'Python stdlib shift_jis / gb2312 codecs']
CHUNK = 8
MODES = ('numeric', 'alphanumeric', 'byte', 'kanji', 'hanzi')
from .c01 import BOUNDARY  # noqa: E402
ALPHA3 = [0x30, 0x41, 0x61, 0x20, 0x81, 0x40, 0xe0, 0xb0]


def codepoints(tier):
    if tier == 'thorough':
        return range(0x10000)
    pts = set()
    for c in (0x00, 0x1f, 0x20, 0x2f, 0x30, 0x39, 0x3a, 0x40, 0x41, 0x5a, 0x5b, 0x60, 0x61, 0x7e, 0x7f, 0x80, 0x9f, 0xa0, 0xa5, 0xff, 0x100,
              0x391, 0x410, 0x44f, 0x2010, 0x203e, 0x2160, 0x2460, 0x3231, 0x338f, 0x9ad9, 0xff5e, 0x2225, 0xffe2, 0x20ac, 0x3000, 0x3001, 0x3041, 0x30a1, 0x30fc, 0x4e00, 0x4e66, 0x6f22, 0x70b9,
              0x9fa0, 0xd7ff, 0xd800, 0xdfff, 0xe000, 0xff61, 0xff71, 0xff9f, 0xffe5, 0xfffd, 0xffff):
        for d in (-2, -1, 0, 1, 2):
            if 0 <= c + d <= 0xffff:
                pts.add(c + d)
    pts |= set(range(0x00, 0x100))
    pts |= set(range(0xff5e, 0xffa2))
    return sorted(pts)


def gen_cases(tier):
    q = tier == 'quick'
    for a in range(256):
        yield ('bytes', bytes([a]), True)
    for a in BOUNDARY:
        yield ('bpairs', a)
    for a in range(256):
        yield ('pairs', a)
    for t in itertools.product(ALPHA3, repeat=2):
        yield ('triples', t[0], t[1])
    cps = list(codepoints(tier))
    for i in range(0, len(cps), 64):
        yield ('cps', cps[i:i + 64])
    # two-character (4-byte) inputs: a valid first character followed by every class-boundary pair, and the reverse order
    for a in BOUNDARY:
        yield ('quads', a)
    # odd / even lengths with requested kanji / hanzi (length 0..5)
    for n in range(1, 6):
        yield ('runs', n)
    # the other routes to the same request: content as list / tuple / (content, mode) parts, the command line tool (--mode, --seq)
    for i in range(len(ROUTE_CONTENTS)):
        yield ('routes', i)
    # an explicit encoding must not change the rule (hanzi is never chosen automatically, also not with encoding='gb2312')
    for i in range(len(ENC_CONTENTS)):
        yield ('encodings', i)
    # histories: the same content requested with every ordered pair (thorough: triple) of modes in one process
    for i in range(len(ROUTE_CONTENTS)):
        yield ('history', i)


def _cli_entry(seq):
    def run(content, mode=None, version=None):
        from segno import cli
        argv = ([] if mode is None else ['--mode', mode]) + ([] if version is None else ['--version', str(version)]) + (['--seq', '--symbol-count', '1'] if seq else [])
        text = content.decode('latin-1') if isinstance(content, bytes) else content
        with contextlib.redirect_stdout(io.StringIO()), contextlib.redirect_stderr(io.StringIO()):
            try:
                cfg = cli.parse(argv + ['--', text])
            except SystemExit:
                raise ValueError('command line not accepted')
        res = cli.make_code(cfg)
        if seq:
            if len(res) != 1:
                raise AssertionError('one small message became %d symbols' % len(res))
            return res[0]
        return res
    return run


def _form_entry(form):
    """the same request through the other documented call forms of the content argument"""
    def run(content, mode=None, version=None):
        kw = {} if version is None else {'version': version}
        const = None if mode is None else C.INT_OF_MODE[mode]
        if form == 'list':
            return segno.make([content], mode=mode, **kw)
        if form == 'tuple':
            return segno.make((content,), mode=mode, **kw)
        if form == 'part-none':           # (content, None): no mode for the part, the requested mode of the call applies
            return segno.make([(content, None)], mode=mode, **kw)
        if form == 'part-none-enc':
            return segno.make([(content, None, None)], mode=mode, **kw)
        if form == 'part-mode':           # the mode requested for the part
            return segno.make([(content, const)], **kw)
        if form == 'part-mode-both':
            return segno.make([(content, const)], mode=mode, **kw)
        raise ValueError(form)
    return run


ENTRY = {'make': segno.make, 'make_qr': segno.make_qr, 'make_micro': segno.make_micro, 'cli': _cli_entry(False), 'cli-seq': _cli_entry(True),
         'list': _form_entry('list'), 'tuple': _form_entry('tuple'), 'part-none': _form_entry('part-none'), 'part-none-enc': _form_entry('part-none-enc'),
         'part-mode': _form_entry('part-mode'), 'part-mode-both': _form_entry('part-mode-both')}
FORMS = ('list', 'tuple', 'part-none', 'part-none-enc', 'part-mode', 'part-mode-both')
# contents of every mode class, incl. lower-case letters (alphanumeric must be refused, not folded) and mixed classes
ROUTE_CONTENTS = ['1', '123', '0042', 'A', 'ABC', 'HELLO WORLD', 'A1', 'abc', 'Abc', 'a1', 'hello world', '\u70b9\u8317', '\u70b9', 'h\xe9llo',
                  '\u4e66\u8bfb', '$%*+-./:', 'a;b', b'123', b'ABC', b'abc', b'\x93\x5f\xe4\xaa', b'\xb0\xa1', b'\x00\xff']


def judge(content, data, mode, version, acc, entry='make'):
    """data: expected bytes (None if the text is not encodable as requested)."""
    case = ('one', content, mode, version) if entry == 'make' else ('one', content, mode, version, entry)
    kw = {}
    if mode is not None:
        kw['mode'] = mode
    if version is not None:
        kw['version'] = version
    try:
        qr = ENTRY[entry](content, **kw)
        exc = None
    except Exception as e:
        qr, exc = None, e
    # model
    given, mode = mode, (mode.lower() if isinstance(mode, str) else mode)      # (the command line accepts any letter case)
    if data is None:
        must = 'refuse'
        allowed = set()
    elif mode is None:
        allowed = Mo.auto_modes(data)
        must = 'accept'
    else:
        r = Mo.representable(mode, data)
        allowed = {mode}
        must = 'accept' if r is True else ('refuse' if r is False else 'either')
    if version is not None and must != 'refuse':
        ok_modes = {m for m in allowed if T.mode_supported(m, version)}
        if not ok_modes:
            must = 'refuse' if mode is not None or len(allowed) == 1 else must
        if must == 'accept' and mode is None and not ok_modes:
            must = 'refuse'
        # capacity (tiny contents: only M1/M2 can be too small)
        if must != 'refuse':
            fits = False
            for m in ok_modes:
                cnt = len(data) // 2 if m in ('kanji', 'hanzi') else len(data)
                need = T.mode_ind_bits(version) + T.cci_bits(m, version) + T.payload_bits(m, cnt) + (4 if m == 'hanzi' else 0)
                lv = T.levels_of(version)[0]
                if need <= T.data_bits(version, lv) and cnt < (1 << T.cci_bits(m, version)):
                    fits = True
            if not fits:
                must = 'refuse'
    if entry == 'make_micro' and version is None and must != 'refuse':
        if not any(m in ('numeric', 'alphanumeric', 'byte', 'kanji') for m in allowed):
            must = 'refuse'                 # hanzi does not exist in Micro QR
        allowed = {m for m in allowed if m != 'hanzi'} or allowed
    outcome = qr.mode if qr is not None else 'exc:' + C.exc_name(exc)
    acc.eval(case, nontrivial=qr is not None, outcome=(outcome, must), state=(tuple(sorted(allowed)), mode, version, must))
    acc.count('accepted' if qr is not None else 'refused')
    acc.sample({'content': content, 'mode': mode, 'version': version, 'result': outcome, 'model': [must, sorted(allowed)]})
    if qr is None:
        if not isinstance(exc, ValueError):
            acc.violation('refusal-type/%s/%s' % (C.exc_name(exc), mode), 'make(%r, mode=%r, version=%r) raised %s instead of ValueError: %s'
                          % (content, mode, version, C.exc_name(exc), str(exc)[:60]), case)
        elif must == 'accept':
            acc.violation('refused-representable/%s' % mode, 'make(%r, mode=%r, version=%r) refused (%s) although %r is representable in %s'
                          % (content, mode, version, str(exc)[:50], data, sorted(allowed)), case)
        return
    if qr.mode is not None:
        acc.add('modes_seen', (mode is None, qr.mode))
    if (entry == 'make_micro') != bool(qr.is_micro) and entry in ('make_qr', 'make_micro', 'cli', 'cli-seq'):
        acc.violation('wrong-symbology/%s' % entry, '%s(%r) returned %s' % (entry, content, qr.designator), case)
    if must == 'refuse':
        acc.violation('accepted-unrepresentable/%s' % mode, 'make(%r, mode=%r, version=%r) returned a %s symbol in mode %r; the bytes %r are not '
                      'representable/available in that mode' % (content, mode, version, qr.designator, qr.mode, data), case)
        return
    if qr.mode not in allowed:
        acc.violation('wrong-mode/%s->%s' % (sorted(allowed), qr.mode), 'make(%r, mode=%r) used mode %r, model allows %r (bytes %r)'
                      % (content, mode, qr.mode, sorted(allowed), data), case, obs=qr.mode, exp=sorted(allowed))
    rep = C.read(qr)
    seg_modes = [s.mode for s in rep.segments or ()]
    if len(seg_modes) != 1 or seg_modes[0] != qr.mode:
        acc.violation('reported-mode', 'QRCode.mode=%r but the symbol holds mode indicator(s) %r' % (qr.mode, seg_modes), case)
    elif rep.payload != data and not rep.problems:
        acc.violation('payload', 'payload %r != %r in mode %r' % (rep.payload, data, qr.mode), case)


ENC_CONTENTS = ['\u4e66\u8bfb\u767e\u904d', '\u4e66', '\u70b9\u8317', '123', 'ABC', 'abc', '\u3042\u3044', 'h\xe9llo', '\u0416\u0437']
ENCODINGS = ('gb2312', 'GB2312', 'gbk', 'shift_jis', 'Shift_JIS', 'cp932', 'utf-8', 'iso-8859-1', 'latin1', 'euc_jp', 'iso-8859-5')


def eci_case(content, acc):
    """eci=True (with or without an explicit encoding) must not change which mode is chosen or whether a requested mode is accepted"""
    for mode in (None,) + MODES:
        for enc in (None, 'shift_jis', 'utf-8'):
            kw = {'micro': False}
            if mode is not None:
                kw['mode'] = mode
            if enc is not None:
                kw['encoding'] = enc
            res = []
            for eci in (False, True):
                try:
                    q = segno.make(content, eci=eci, **kw)
                    res.append(q.mode)
                except ValueError:
                    res.append('ValueError')
                except Exception as e:
                    res.append('exc:' + C.exc_name(e))
            case = ('eci1', content, mode, enc)
            acc.eval(case, nontrivial=res[0] != 'ValueError', outcome=tuple(res), state=('eci', mode, enc))
            if res[0] != res[1]:
                acc.violation('eci-changes-mode', 'make(%r, **%r): mode %r without eci, %r with eci=True' % (content, kw, res[0], res[1]), case)


def encodings_case(content, acc):
    for enc in ENCODINGS:
        try:
            data = content.encode(enc)
        except UnicodeError:
            data = None
        for entry in ('make', 'make_qr'):
            case = ('enc1', content, enc, entry)
            try:
                qr = ENTRY[entry](content, encoding=enc)
                exc = None
            except Exception as e:
                qr, exc = None, e
            acc.eval(case, nontrivial=qr is not None, outcome=qr.mode if qr is not None else 'exc:' + C.exc_name(exc), state=('enc', enc, entry))
            if qr is None:
                if not isinstance(exc, ValueError):
                    acc.violation('refusal-type/%s/encoding' % C.exc_name(exc), '%s(%r, encoding=%r) raised %s' % (entry, content, enc, C.exc_name(exc)), case)
                elif data is not None:
                    acc.violation('refused-representable/encoding', '%s(%r, encoding=%r) refused (%s) although the text is encodable' % (entry, content, enc, str(exc)[:50]), case)
                continue
            if data is None:
                continue                 # (the library falls back to another encoding: C01 judges the bytes)
            allowed = Mo.auto_modes(data)
            if qr.mode not in allowed:
                acc.violation('wrong-mode/%s->%s' % (sorted(allowed), qr.mode), '%s(%r, encoding=%r) used mode %r, the first applicable mode for the bytes %r is %r'
                              % (entry, content, enc, qr.mode, data, sorted(allowed)), case)
            rep = C.read(qr)
            seg_modes = [s_.mode for s_ in rep.segments or ()]
            if seg_modes != [qr.mode]:
                acc.violation('reported-mode', 'QRCode.mode=%r but the symbol holds mode indicator(s) %r' % (qr.mode, seg_modes), case)


def expected(content, mode):
    if isinstance(content, bytes):
        return content
    try:
        return content.encode('gb2312') if mode is not None and mode.lower() == 'hanzi' else Mo.expected_bytes(content)[0]
    except UnicodeError:
        return None


def all_modes(content, data, acc, versions=(None,), entries=False):
    for m in (None,) + MODES:
        d = data
        if m == 'hanzi' and isinstance(content, str):
            try:
                d = content.encode('gb2312')
            except UnicodeError:
                d = None
        for v in versions:
            judge(content, d, m, v, acc)
        if entries:
            for e in ('make_qr', 'make_micro'):
                judge(content, d, m, None, acc, entry=e)


def run_case(case, acc):
    kind = case[0]
    if kind == 'bytes':
        all_modes(case[1], case[1], acc, versions=(None, 'M1', 'M2', 'M3', 'M4', 1) if case[2] else (None,), entries=True)
    elif kind == 'bpairs':
        for b in BOUNDARY:
            d = bytes([case[1], b])
            all_modes(d, d, acc, entries=True)
        for b in (0x30, 0x41, 0x40, 0xa1):
            d = bytes([case[1], b])
            all_modes(d, d, acc, versions=('M1', 'M2', 'M3', 'M4', 1))
    elif kind == 'pairs':
        for b in range(256):
            d = bytes([case[1], b])
            all_modes(d, d, acc)
    elif kind == 'triples':
        for c in ALPHA3:
            d = bytes([case[1], case[2], c])
            all_modes(d, d, acc)
            d4 = d + bytes([c])
            judge(d4, d4, None, None, acc)
            judge(d4, d4, 'kanji', None, acc)
    elif kind == 'quads':
        for b in BOUNDARY:
            pair = bytes([case[1], b])
            for good, m in ((b'\xb0\xa1', 'hanzi'), (b'\x93\x5f', 'kanji'), (b'\xe0\x40', 'kanji'), (b'\xa1\xa1', 'hanzi')):
                for d in (good + pair, pair + good, good + good + pair):
                    judge(d, d, m, None, acc)
                    judge(d, d, None, None, acc)
    elif kind == 'cps':
        for cp in case[1]:
            ch = chr(cp)
            try:
                data = Mo.expected_bytes(ch)[0]
            except UnicodeError:
                data = None
            all_modes(ch, data, acc)
    elif kind == 'runs':
        n = case[1]
        for unit in (b'\x93', b'\x93\x5f', b'\xb0\xa1', b'1', b'A'):
            d = (unit * 6)[:n]
            all_modes(d, d, acc, versions=(None, 'M3', 1))
    elif kind == 'routes':
        content = ROUTE_CONTENTS[case[1]]
        data = expected(content, None)
        for m in (None,) + MODES:
            d = expected(content, m)
            for e in FORMS:
                if m is None and e.startswith('part-mode'):
                    continue
                for v in (None, 'M2', 1):
                    judge(content, d, m, v, acc, entry=e)
            if isinstance(content, str) and not content.startswith('-'):
                for e in ('cli', 'cli-seq'):
                    judge(content, d, m, None, acc, entry=e)
                    if m is not None:
                        judge(content, d, m.upper(), None, acc, entry=e)
    elif kind == 'encodings':
        encodings_case(ENC_CONTENTS[case[1]], acc)
        eci_case(ENC_CONTENTS[case[1]], acc)
        for extra in ('\uff11\uff12', '\u70b9', b'\x93\x5f\xe4\xaa', '12', 'AB'):
            eci_case(extra, acc)
    elif kind == 'eci1':
        eci_case(case[1], acc)
    elif kind == 'enc1':
        encodings_case(case[1], acc)
    elif kind == 'history':
        content = ROUTE_CONTENTS[case[1]]
        seqs = list(itertools.permutations((None,) + MODES, 2)) + [(m, m) for m in (None,) + MODES]
        for seq in seqs:
            for m in seq:
                judge(content, expected(content, m), m, None, acc)
        for a, b in itertools.permutations(range(len(ROUTE_CONTENTS)), 2):
            if a == case[1] and isinstance(ROUTE_CONTENTS[b], type(content)):
                # two different contents alternating (state keyed by the previous call)
                other = ROUTE_CONTENTS[b]
                for m in (None, 'byte'):
                    judge(other, expected(other, m), m, None, acc)
                    judge(content, expected(content, None), None, None, acc)
    elif kind == 'one':
        content, mode, version = case[1], case[2], case[3]
        entry = case[4] if len(case) > 4 else 'make'
        judge(content, expected(content, mode), mode, version, acc, entry=entry)
    else:
        raise ValueError(kind)


def obligations(agg, tier):
    seen = agg.sets.get('modes_seen', set())
    for m in ('numeric', 'alphanumeric', 'kanji', 'byte'):
        if (True, m) not in seen:
            yield 'automatic mode %s never observed' % m
    for m in MODES:
        if (False, m) not in seen:
            yield 'requested mode %s never accepted' % m
    if (True, 'hanzi') in seen:
        pass  # reported as a violation by judge()
    if agg.ctr.get('refused', 0) < 100:
        yield 'too few refusals (%d)' % agg.ctr.get('refused', 0)
