"""C08 - Structured Append sequences reassemble to the original message.

Every symbol of every returned sequence is read by qrref: validity (C02/C03), Structured Append header (position,
total-1, parity), parity = XOR of the bytes of the complete message, concatenated payload = message bytes,
symbol_count / version contracts.  Content families x all lengths up to 16 x per-symbol capacity (+2)."""
import functools
import math
import operator

from qrref import tables as T, model as Mo
from . import common as C
from .common import segno

ID = 'C08'
LEVEL = 'exploration'
TITLE = 'Structured Append sequences reassemble to the original message'
RULE = ('content families {digits, alphanumeric, latin-1 text, bytes, kanji text, mixed-width text, int, UTF-8-only text} x ALL lengths '
        '1..16 x capacity + 2 for version 1 (each level, boost on/off for L) and lengths around every multiple of the per-symbol capacity '
        'for larger versions; symbol_count 1..16 x lengths 1..64 (incl. length == count), two-class contents (digits+letters etc.) whose chunks fall into different modes, and lengths that fill k symbols of each version exactly (+-2); each symbol decoded, header/parity/payload/count/version contracts checked. '
        'non-trivial = a sequence was returned and every symbol decoded')
BOUNDS = {'quick': 'version 1 all lengths; version 2 around multiples; symbol_count 1..16 x lengths 1..64',
          'thorough': 'versions 1-3 all lengths; 10, 27, 40 around multiples of the capacity; symbol_count x lengths 1..400'}
ASSUMPTIONS = ['"bytes of the complete message as encoded" = given bytes | decimal digits | text in the requested encoding, else the first of '
               'ISO-8859-1, Shift JIS, UTF-8 that can represent the whole text']
KNOWN = {'sa-version-path-underestimated-symbol-count':
         'version=v path: number_of_symbols_by_version ignores the per-symbol mode/count indicators (and partial groups), so a chunk needs more '
         'bits than the symbol holds and is silently cut; the count returned equals the defective estimate restated in the check'}
CHUNK = 1

FAMILIES = ('digits', 'alnum', 'latin', 'bytes', 'kanji', 'mixed', 'int', 'utf8', 'sjisbyte', 'hanzi', 'hira8')
FAM_MODE = {'digits': 'numeric', 'alnum': 'alphanumeric', 'latin': 'byte', 'bytes': 'byte', 'kanji': 'kanji', 'mixed': 'byte', 'int': 'numeric',
            'utf8': 'byte', 'sjisbyte': 'byte', 'hanzi': 'hanzi', 'hira8': 'kanji'}
# hira8: hiragana in UTF-8 (explicit encoding) - an even number of characters gives bytes that are all valid Shift JIS pairs, so the
# mode is kanji although the bytes are UTF-8; n counts byte pairs (2 characters = 3 pairs)
FAM_KW = {'hanzi': {'mode': 'hanzi'}, 'hira8': {'encoding': 'utf-8'}}


def content_of(fam, n):
    if fam == 'digits':
        return C.content_of('numeric', n, 0)
    if fam == 'alnum':
        return 'K' + C.content_of('alphanumeric', n - 1, 1) if n else ''
    if fam == 'latin':
        return ('x' + C.content_of('byte', n, 0))[:n]
    if fam == 'bytes':
        return bytes((0xfe - (i * 7) % 100) for i in range(n))
    if fam == 'kanji':
        return C.content_of('kanji', n, 0)
    if fam == 'mixed':
        return ('\xe4€' * n)[:n]
    if fam == 'int':
        return int('7' + C.content_of('numeric', n - 1, 1)) if n > 1 else 7
    if fam == 'utf8':
        return '€' * n
    if fam == 'sjisbyte':
        # byte mode in Shift JIS (not ISO-8859-1 encodable): single-byte katakana / ASCII mixed with double-byte characters
        return ('\uff71Q\u70b9R=' * n)[:n]
    if fam == 'hanzi':
        return C.content_of('hanzi', n, 0)
    if fam == 'hira8':
        return '\u3042\u3044' * max(1, n // 3)
    raise ValueError(fam)


def defective_estimate(nchars, version, level, mode, eci=False, nonlatin=False):
    """Restatement of segno's number_of_symbols_by_version (the known-finding classifier needs it verbatim)."""
    cap = T.data_bits(version, level)
    overhead = 4 + T.cci_bits(mode, version) + (12 if eci and mode == 'byte' and nonlatin else 0) + 20
    if mode == 'numeric':
        num, rem = divmod(nchars, 3)
        bits = num * 10 + (4 if rem == 1 else 7)
    elif mode == 'alphanumeric':
        num, rem = divmod(nchars, 2)
        bits = num * 11 + (6 if rem else 0)
    elif mode == 'byte':
        bits = nchars * 8
    else:
        bits = nchars * 13
    bl = overhead + bits
    cnt = int(math.ceil(bl / cap))
    bl += 20 * (cnt - 1) + (12 * (cnt - 1) if eci else 0)
    return int(math.ceil(bl / cap))


def per_symbol_chars(version, level, mode):
    """characters one Structured Append symbol of (version, level) can hold"""
    return C.max_count(mode, version, level, extra_bits=20)


def gen_cases(tier):
    q = tier == 'quick'
    for fam in FAMILIES:
        for v in ((1,) if q else (1, 2, 3)):
            for lvl in ('L', 'M', 'Q', 'H'):
                per = per_symbol_chars(v, lvl, FAM_MODE[fam])
                top = 16 * max(per, 1) + 4
                for lo in range(1, top + 1, 16):
                    yield ('ver', fam, v, lvl, lo, min(top, lo + 15))
        for v in ((2,) if q else (10, 27, 40)):
            for lvl in ('L', 'H'):
                yield ('vermult', fam, v, lvl)
        for sc in range(1, 17):
            yield ('cnt', fam, sc, 1, 64 if q else 400)
        for v in (range(1, 7) if q else range(1, 41)):
            yield ('cntbnd', fam, v)
    yield ('misc',)
    for sc in (2, 3, 4):
        yield ('hetero', sc)


def check_seq(content, kw, acc, fam):
    if fam in FAM_KW:
        kw = dict(kw, **FAM_KW[fam])
    case = ('one', fam, content if not isinstance(content, int) else ('int', str(content)), kw)
    try:
        exp, enc = Mo.expected_bytes(content, kw.get('mode'), kw.get('encoding'))
    except UnicodeError:
        exp = None
    try:
        seq = segno.make_sequence(content, **kw)
    except ValueError as e:
        acc.eval(case, nontrivial=False, outcome='refused:' + C.exc_name(e))
        acc.count('refused')
        # "symbol_count=k alone yields exactly k symbols": a refusal is only justified if the message has fewer than k characters
        # or a chunk cannot fit the largest version
        sc = kw.get('symbol_count')
        if sc is not None and kw.get('version') is None and 1 <= sc <= 16 and exp is not None and fam in FAM_MODE:
            mode = FAM_MODE[fam]
            units = len(exp) // (2 if mode in ('kanji', 'hanzi') else 1)
            lvl = kw.get('error') or 'L'
            if units >= sc and -(-units // sc) <= C.max_count('byte', 40, lvl, extra_bits=20) // 2:
                acc.violation('refused-feasible/symbol_count', 'make_sequence(<%s, %d characters>, **%r) refused (%s) although the message can be '
                              'divided into %d symbols' % (fam, units, kw, str(e)[:60], sc), case)
        return
    except Exception as e:
        acc.eval(case, nontrivial=False, outcome='exc:' + C.exc_name(e))
        acc.violation('exception/%s' % C.exc_name(e), 'make_sequence(<%s, %d chars>, **%r) raised %s: %s'
                      % (fam, len(str(content)), kw, C.exc_name(e), str(e)[:80]), case)
        return
    n = len(seq)
    acc.count('sequences')
    acc.add('counts', n)
    path = 'version' if kw.get('symbol_count') is None else 'symbol_count'
    fkey = '%s/%s' % (path, fam)
    viol = []
    if not 1 <= n <= 16:
        viol.append(('count-range', 'sequence of %d symbols' % n, None))
    if kw.get('symbol_count') is not None and kw.get('version') is None and n != kw['symbol_count']:
        viol.append(('symbol-count', 'symbol_count=%d requested, %d symbols returned' % (kw['symbol_count'], n), None))
    par = functools.reduce(operator.xor, exp, 0) if exp is not None else None
    payload = b''
    cut = False
    pars = set()
    pieces = []          # per symbol: (payload of complete segments + readable part of a cut segment, was_cut)
    for i, qr in enumerate(seq):
        if qr.is_micro:
            viol.append(('micro', 'symbol %d is a Micro QR symbol' % i, None))
        if kw.get('version') is not None and kw.get('symbol_count') is None and qr.version != kw['version']:
            viol.append(('version', 'symbol %d has version %r, requested %r' % (i, qr.version, kw['version']), None))
        rep = C.read(qr)
        bad = [p for p in rep.problems if C.classify_problem(p) != 'remainder-bits']
        for fam2, msg in C.meta_problems(qr, rep):
            viol.append(('meta', 'symbol %d: %s' % (i, msg), None))
        if bad:
            if any('exhausted' in p for p in bad):
                cut = True
            viol.append(('decode-cut' if cut else 'decode', 'symbol %d of %d (%s): %s' % (i, n, qr.designator, bad[0]), None))
        if n > 1:
            if rep.sa is None:
                viol.append(('sa-header-missing', 'symbol %d of %d has no Structured Append header' % (i, n), None))
            else:
                if rep.sa[0] != i or rep.sa[1] != n - 1:
                    viol.append(('sa-header', 'symbol %d of %d carries header position=%d total-1=%d' % (i, n, rep.sa[0], rep.sa[1]), None))
                pars.add(rep.sa[2])
        elif rep.sa is not None and (rep.sa[0] != 0 or rep.sa[1] != 0):
            viol.append(('sa-header', 'single symbol with header %r' % (rep.sa,), None))
        # the mode of a homogeneous message is the most compact one (C07) in every symbol, and with boost_error=False the level
        # is exactly the requested one (C05)
        if fam in FAM_MODE and kw.get('mode') in (None, 'hanzi') and kw.get('encoding') is None and rep.segments and any(sg.mode != FAM_MODE[fam] for sg in rep.segments):
            viol.append(('mode', 'symbol %d uses mode(s) %r for a %s message' % (i, sorted({sg.mode for sg in rep.segments}), FAM_MODE[fam]), None))
        elif fam not in FAM_MODE and kw.get('mode') is None and exp is not None and rep.segments:
            # the mode is the most compact one applicable to the WHOLE message (C07), in every symbol
            allowed = Mo.auto_modes(exp)
            if any(sg.mode not in allowed for sg in rep.segments):
                viol.append(('mode', 'symbol %d uses mode(s) %r, the message as a whole is %s' % (i, sorted({sg.mode for sg in rep.segments}), sorted(allowed)), None))
        # boosting: a symbol whose data fits is raised to the highest level of its version that still holds its own data
        if kw.get('boost_error', True) and rep.segments and len(rep.segments) == 1 and not bad and n > 1 and not T.is_micro(rep.version):
            sg = rep.segments[0]
            need = 20 + 4 + (4 if sg.mode == 'hanzi' else 0) + T.cci_bits(sg.mode, rep.version) + T.payload_bits(sg.mode, sg.count)
            want = kw.get('error') or 'L'
            if need <= T.data_bits(rep.version, want):
                for cand in ('M', 'Q', 'H')[('L', 'M', 'Q', 'H').index(want):]:
                    if need <= T.data_bits(rep.version, cand):
                        want = cand
                    else:
                        break
                if qr.error != want:
                    viol.append(('level-boost', 'symbol %d of %d holds %d bits: level %r, the highest level of version %r that holds them is %r'
                                 % (i, n, need, qr.error, rep.version, want), None))
        if kw.get('boost_error', True) is False and qr.error != (kw.get('error') or 'L'):
            viol.append(('level', 'symbol %d has level %r although %r was requested with boost_error=False' % (i, qr.error, kw.get('error') or 'L'), None))
        if qr.error is None or ('L', 'M', 'Q', 'H').index(qr.error) < ('L', 'M', 'Q', 'H').index(kw.get('error') or 'L'):
            viol.append(('level', 'symbol %d has level %r, below the requested %r' % (i, qr.error, kw.get('error') or 'L'), None))
        payload += rep.payload or b''
        pieces.append(((rep.payload or b'') + (rep.partial or b''), rep.partial is not None))
    if n > 1 and len(pars) > 1:
        viol.append(('parity-differs', 'parity bytes differ between symbols: %r' % sorted(pars), None))
    if n > 1 and par is not None and pars and pars != {par} and len(pars) == 1:
        viol.append(('parity', 'parity byte %#04x, XOR of the message bytes is %#04x' % (next(iter(pars)), par), None))
    if exp is not None and payload != exp and not any(v[0].startswith('decode') for v in viol):
        viol.append(('payload', 'concatenated payload (%d bytes) != message (%d bytes): %r... vs %r...' % (len(payload), len(exp), payload[:16], exp[:16]), None))
    # known finding: version path, defective estimate, a chunk does not fit
    known = None
    if path == 'version' and cut and exp is not None:
        mode = seq[0].mode
        nchars = len(exp) // (2 if mode in ('kanji', 'hanzi') else 1)     # the count is estimated from the encoded message
        v, lvl = kw['version'], kw.get('error') or 'L'
        boost = kw.get('boost_error', True)
        if mode is not None and n == defective_estimate(nchars, v, lvl, mode, kw.get('eci', False), False):
            # every symbol must hold (the beginning of) its chunk of the even split, cut only where the capacity of the REQUESTED level
            # ends; symbols whose chunk fits must be complete and carry exactly the level the boosting rule gives
            cs = 2 if mode in ('kanji', 'hanzi') else 1
            k_, m_ = divmod(nchars, n)
            chunks = [exp[(i * k_ + min(i, m_)) * cs:((i + 1) * k_ + min(i + 1, m_)) * cs] for i in range(n)]
            fit = per_symbol_chars(v, lvl, mode)
            good = len(pieces) == n
            any_over = False
            for (got, was_cut), ch, q in zip(pieces, chunks, seq):
                need = 20 + 4 + (4 if mode == 'hanzi' else 0) + T.cci_bits(mode, v) + T.payload_bits(mode, len(ch) // cs)
                if need > T.data_bits(v, lvl):
                    any_over = True
                    good = good and was_cut and q.error == lvl and ch.startswith(got) and len(ch) > len(got) >= (fit - 3) * cs
                else:
                    want = lvl
                    if boost:
                        for cand in ('M', 'Q', 'H')[('L', 'M', 'Q', 'H').index(lvl):]:
                            if need <= T.data_bits(v, cand):
                                want = cand
                            else:
                                break
                    good = good and not was_cut and got == ch and q.error == want
            if any_over and good:
                known = 'sa-version-path-underestimated-symbol-count'
    acc.eval(case, nontrivial=True, outcome=(n, tuple(v[0] for v in viol)), state=(fam, path, n, kw.get('version'), kw.get('error')))
    acc.sample({'family': fam, 'chars': len(str(content)), 'kw': kw, 'symbols': n, 'designators': [q.designator for q in seq][:3]})
    for key, msg, _ in viol:
        k = known if key in ('decode-cut', 'decode') else None
        acc.violation('%s/%s' % (key, fkey), msg + '  [make_sequence(<%s, %d chars>, **%r)]' % (fam, len(str(content)), kw), case, known=k)


def run_case(case, acc):
    kind = case[0]
    if kind == 'ver':
        _, fam, v, lvl, lo, hi = case
        for n in range(lo, hi + 1):
            for boost in ((True, False) if lvl == 'L' else (True,)):
                kw = {'version': v, 'error': lvl}
                if not boost:
                    kw['boost_error'] = False
                check_seq(content_of(fam, n), kw, acc, fam)
    elif kind == 'vermult':
        _, fam, v, lvl = case
        per = per_symbol_chars(v, lvl, FAM_MODE[fam])
        single = C.max_count(FAM_MODE[fam], v, lvl)
        lens = set()
        for k in (1, 2, 3, 8, 15, 16):
            for d in (-2, -1, 0, 1, 2):
                lens.add(k * per + d)
                lens.add(k * single + d)
        for n in sorted(x for x in lens if x >= 1):
            if fam == 'int' and n > 4000:
                continue
            check_seq(content_of(fam, n), {'version': v, 'error': lvl}, acc, fam)
    elif kind == 'cnt':
        _, fam, sc, lo, hi = case
        for n in range(lo, hi + 1):
            if n > 64 and n % 7 and sc not in (2, 16):
                continue
            check_seq(content_of(fam, n), {'symbol_count': sc}, acc, fam)
    elif kind == 'cntbnd':
        _, fam, v = case
        mode = FAM_MODE[fam]
        for lvl in ('L', 'H'):
            per = per_symbol_chars(v, lvl, mode)
            if per < 1 or (fam == 'int' and per * 3 > 4000):
                continue
            for sc in (2, 3, 16):
                if sc * per > 7000 and sc == 16:
                    continue
                for d in (-1, 0, 1, 2):
                    n = sc * per + d
                    if fam == 'int' and n > 4000:
                        continue            # CPython refuses int <-> str conversion beyond 4300 digits
                    if n >= sc:
                        for boost in (True, False):
                            kw = {'symbol_count': sc, 'error': lvl}
                            if not boost:
                                kw['boost_error'] = False
                            check_seq(content_of(fam, n), kw, acc, fam)
    elif kind == 'misc':
        # more digits than the largest symbol holds (the mode is detected on the whole message)
        for n, kw in ((7090, {'symbol_count': 2}), (7100, {'version': 40}), (7090, {'symbol_count': 2, 'mode': 'numeric'})):
            check_seq(content_of('digits', n), kw, acc, 'digits')
        for fam in ('digits', 'alnum', 'latin'):
            for n in (3, 9, 12):
                for v in (1, 2):
                    for lvl in ('L', 'M'):
                        check_seq(content_of(fam, n), {'version': v, 'error': lvl, 'boost_error': False}, acc, fam)
        for fam in ('latin', 'utf8', 'kanji'):
            for n in (10, 40, 100):
                for kw in ({'version': 1, 'encoding': 'utf-8'}, {'symbol_count': 3, 'encoding': 'utf-8'}, {'version': 2, 'encoding': 'shift_jis'},
                           {'symbol_count': 2, 'version': 5}, {'version': 1, 'mask': 3}, {'symbol_count': 4, 'error': 'H', 'boost_error': False}):
                    check_seq(content_of(fam, n), kw, acc, fam)
        # a message given as parts of two or more modes: refused (the function says so) or a sequence that reassembles to the
        # concatenation - never a sequence encoded in the mode of the first part only
        for parts in (['abc', '123'], ['a', '1'] * 8, ['xy', 'AB'], ['123', 'abc'], ['12', 'AB'], ['AB', '12', 'cd'], ['1', 'a'] * 8, ['\u70b9\u8317', '12'], ['12', 'AB', '34', 'CD'] * 6):
            for kw in ({'symbol_count': 2}, {'symbol_count': 3, 'error': 'H'}, {'version': 1}, {'version': 1, 'error': 'H'}, {'symbol_count': 1}):
                case2 = ('misc',)
                try:
                    seq = segno.make_sequence(parts, **kw)
                except ValueError:
                    acc.eval(('multimode', tuple(parts), tuple(sorted(kw))), nontrivial=False, outcome='refused')
                    continue
                except Exception as e:
                    acc.violation('exception/%s' % C.exc_name(e), 'make_sequence(%r, **%r) raised %s: %s' % (parts, kw, C.exc_name(e), str(e)[:60]), case2)
                    continue
                reps = [C.read(q) for q in seq]
                want = ''.join(parts).encode('shift_jis' if any(ord(ch) > 255 for p_ in parts for ch in p_) else 'latin-1')
                got = b''.join(r.payload or b'' for r in reps)
                bad = [p_ for r in reps for p_ in r.problems if C.classify_problem(p_) != 'remainder-bits']
                acc.eval(('multimode', tuple(parts), tuple(sorted(kw))), nontrivial=True, outcome=(got == want and not bad), state=('multimode', len(parts), tuple(sorted(kw))))
                if bad or got != want:
                    acc.violation('multi-mode-parts', 'make_sequence(%r, **%r) returned %d symbols that reassemble to %r (%s)' % (parts, kw, len(seq), got[:30], bad[:1]), case2)
    elif kind == 'hetero':
        sc = case[1]
        for a, b in (('7', 'a'), ('a', '7'), ('A', 'b'), ('7', 'A'), ('K', '7'), ('x', 'Z')):
            for na in (5, 20, 40, 77):
                for nb in (5, 21, 39, 78):
                    for lvl in ('L', 'H'):
                        check_seq(a * na + b * nb, {'symbol_count': sc, 'error': lvl}, acc, 'hetero')
                        check_seq(a * na + b * nb, {'symbol_count': sc, 'error': lvl, 'boost_error': False}, acc, 'hetero')
    elif kind == 'one':
        _, fam, content, kw = case
        if isinstance(content, tuple) and content and content[0] == 'int':
            content = int(content[1])
        check_seq(content, dict(kw), acc, fam)
    else:
        raise ValueError(kind)


def obligations(agg, tier):
    if set(range(1, 17)) - agg.sets.get('counts', set()):
        yield 'sequence lengths never seen: %r' % sorted(set(range(1, 17)) - agg.sets.get('counts', set()))
    if agg.ctr.get('sequences', 0) < 5000:
        yield 'sequences decoded: %d' % agg.ctr.get('sequences', 0)
    if agg.ctr.get('refused', 0) < 10:
        yield 'refusals: %d' % agg.ctr.get('refused', 0)
