"""C09 - raster and text outputs depict exactly the symbol with its quiet zone.

Independent readers (readers/raster.py: PNG with CRC/zlib/filters/PLTE/tRNS, PBM P1/P4, PAM, PPM, XBM, XPM; text readers
below) reduce each file to a pixel grid; every pixel is compared with the module it must depict."""
import contextlib
import io
import os
import shutil
import tempfile
import re

from qrref import tables as T
from readers import raster as R, colors as Co
from . import common as C
from .common import segno

ID = 'C09'
LEVEL = 'exploration'
TITLE = 'Raster and text outputs depict exactly the symbol with its quiet zone'
RULE = ('one real symbol per symbol size x scale {1,2,3,2.5,0.5; 4 and 8 for sizes <= 25} x border {None,0,1,3} x the colour variants each format documents '
        '(switching PNG between greyscale/palette/tRNS/alpha and PAM between its tuple types) x format options (plain, dpi, compresslevel); '
        'each file is parsed by an independent reader (signature, chunk CRCs, declared size vs data) and every pixel compared with the module '
        '(y div s - b, x div s - b); TXT / ANSI / half-block outputs parsed back to the same grid. non-trivial = file produced and parsed '
        '(or refusal expected for scale < 1)')
BOUNDS = {'quick': 'sizes M1-M4, 1-6, 7, 14, 21, 40', 'thorough': 'all 44 sizes'}
ASSUMPTIONS = ['format readers written against the PNG / Netpbm / XBM / XPM specifications using only zlib, struct, re',
               'colour domains as documented per format (alpha for PNG and PAM; None where the format documents transparency)']
CHUNK = 1

PNG_COL = [({}, '#000', '#fff'), (dict(dark='darkblue'), 'darkblue', '#fff'), (dict(dark='#abc', light='#123'), '#abc', '#123'),
           (dict(light=None), '#000', None), (dict(dark=None), None, '#fff'), (dict(dark='red', light=None), 'red', None),
           (dict(dark='#00000080'), '#00000080', '#fff'), (dict(dark=(10, 20, 30), light=(200, 210, 220, 128)), (10, 20, 30), (200, 210, 220, 128)),
           (dict(dark='white', light='black'), 'white', 'black'), (dict(dark=None, light='black'), None, 'black'),
           (dict(dark='#0008', light='#fff8'), '#00000088', '#ffffff88'), (dict(dark=(0, 0, 0, 0.5)), (0, 0, 0, 0.5), '#fff'),
           (dict(dark='black', light='white'), '#000', '#fff'), (dict(dark='#FFFFFF', light=None), '#fff', None),
           # the writer picks the first CSS colours as stand-in for "transparent": the visible colour may be exactly one of them
           (dict(dark='aliceblue', light=None), 'aliceblue', None), (dict(dark=None, light='#f0f8ff'), None, '#f0f8ff'),
           (dict(dark='antiquewhite', light=None), 'antiquewhite', None), (dict(dark=(240, 248, 255, 128), light=None), (240, 248, 255, 128), None),
           # float alpha values whose exact 0..255 image is not an integer (nearest-integer conversion expected)
           (dict(dark=(0, 0, 0, 0.1)), (0, 0, 0, 0.1), '#fff'), (dict(dark=(9, 8, 7, 0.75), light=(250, 251, 252, 0.95)), (9, 8, 7, 0.75), (250, 251, 252, 0.95)),
           (dict(dark=(1, 2, 3, 0.3)), (1, 2, 3, 0.3), '#fff'),
           # opaque greys (R=G=B) other than black/white, alone and with the defaults
           (dict(light='#eee'), '#000', '#eee'), (dict(dark='#333'), '#333', '#fff'), (dict(dark=(40, 40, 40), light=None), (40, 40, 40), None),
           (dict(dark='gray', light='silver'), 'gray', 'silver'), (dict(light='yellow'), '#000', 'yellow'),
           # alpha exactly 0 (int and float) = fully transparent; images whose dark and light colour are the same
           (dict(light=(255, 255, 255, 0)), '#000', (255, 255, 255, 0)), (dict(dark=(0, 0, 0, 0.0), light='#fff'), (0, 0, 0, 0.0), '#fff'),
           (dict(dark=(10, 20, 30, 0), light=(200, 210, 220)), (10, 20, 30, 0), (200, 210, 220)), (dict(light='#ffffff00'), '#000', '#ffffff00'),
           (dict(dark='#fff', light='white'), '#fff', '#fff'), (dict(dark='black', light='#000'), '#000', '#000'), (dict(dark='red', light='#f00'), 'red', 'red'),
           (dict(dark='#eee', light=(238, 238, 238)), '#eee', '#eee'),
           # the ends of the alpha range on a colour that is not black / white: int 255 and float 1.0 (opaque), int 1 (1/255)
           (dict(dark=(10, 20, 30, 255)), (10, 20, 30, 255), '#fff'), (dict(dark=(10, 20, 30, 1.0), light=(200, 210, 220, 1.0)), (10, 20, 30, 1.0), (200, 210, 220, 1.0)),
           (dict(light=(200, 210, 220, 255)), '#000', (200, 210, 220, 255)), (dict(dark=(10, 20, 30, 1)), (10, 20, 30, 1), '#fff')]
GREY_ALIASES = [('gray', 'grey'), ('darkgray', 'darkgrey'), ('dimgray', 'dimgrey'), ('lightgray', 'lightgrey'), ('slategray', 'slategrey'),
                ('darkslategray', 'darkslategrey'), ('lightslategray', 'lightslategrey'), ('aqua', 'cyan'), ('fuchsia', 'magenta')]
COLORS = {
    'png': PNG_COL,
    'pbm': [({}, '#000', '#fff'), (dict(plain=True), '#000', '#fff')],
    'pam': [({}, '#000', '#fff'), (dict(light=None), '#000', None), (dict(dark='red'), 'red', '#fff'), (dict(dark='red', light=None), 'red', None),
            (dict(dark='white', light='black'), 'white', 'black'), (dict(dark='#123', light='#fed'), '#123', '#fed'),
            (dict(dark='white', light=None), 'white', None), (dict(dark='black', light='#fff'), '#000', '#fff'),
            (dict(dark=(0, 0, 0), light=(255, 255, 255)), '#000', '#fff'), (dict(dark='#fff', light='#fff'), '#fff', '#fff'),
            (dict(dark='#123', light=None), '#123', None), (dict(dark=(10, 20, 30), light=None), (10, 20, 30), None), (dict(dark='gray', light=None), 'gray', None),
            (dict(dark=(10, 20, 30), light=(40, 50, 60)), (10, 20, 30), (40, 50, 60)),
            (dict(light='yellow'), '#000', 'yellow'), (dict(light='#eee'), '#000', '#eee'), (dict(dark='#333'), '#333', '#fff'),
            (dict(dark='white', light='yellow'), 'white', 'yellow'), (dict(dark='gray', light=None), 'gray', None),
            # colours with an alpha channel (RGB_ALPHA)
            (dict(dark='#0a141e80'), '#0a141e80', '#fff'), (dict(light=(200, 210, 220, 128)), '#000', (200, 210, 220, 128)),
            (dict(dark=(0, 0, 0, 0.5), light=None), (0, 0, 0, 0.5), None), (dict(dark=(0, 0, 0, 128), light=(255, 255, 255, 64)), (0, 0, 0, 128), (255, 255, 255, 64)),
            (dict(dark='#fff8', light='#0008'), '#ffffff88', '#00000088'),
            (dict(light=(255, 255, 255, 0)), '#000', (255, 255, 255, 0)), (dict(dark=(0, 0, 0, 0.0)), (0, 0, 0, 0.0), '#fff'),
            (dict(dark='red', light='#f00'), 'red', 'red'), (dict(dark='black', light='#000'), '#000', '#000'),
            (dict(dark=(10, 20, 30, 255)), (10, 20, 30, 255), '#fff'), (dict(dark=(10, 20, 30, 1.0), light=(200, 210, 220, 1.0)), (10, 20, 30, 1.0), (200, 210, 220, 1.0)),
            (dict(dark=(10, 20, 30, 1)), (10, 20, 30, 1), '#fff')],
    'ppm': [({}, '#000', '#fff'), (dict(dark='red', light='tan'), 'red', 'tan'), (dict(dark='white', light='black'), 'white', 'black'),
            (dict(light='#eee'), '#000', '#eee'), (dict(dark='#333', light='yellow'), '#333', 'yellow')],
    'xbm': [({}, '#000', '#fff'), (dict(name='qr_code'), '#000', '#fff')],
    'xpm': [({}, '#000', '#fff'), (dict(dark='red', light=None), 'red', None), (dict(dark=None), None, '#fff'), (dict(light='#eee'), '#000', '#eee'),
            (dict(dark='#fff', light='#000', name='x'), '#fff', '#000')],
}
READ = {'png': R.read_png, 'pbm': R.read_pbm, 'pam': R.read_pam, 'ppm': R.read_ppm}
EXTRA = {'png': [{}, {'dpi': 300}, {'compresslevel': 0}, {'compresslevel': 1, 'dpi': 72}]}
QUICK_VERS = T.MICRO + (1, 2, 3, 4, 5, 6, 7, 14, 21, 40)


def symbol(v):
    lvl = T.levels_of(v)[0]
    n = max(1, C.max_count('numeric', v, lvl) * 2 // 3)
    return segno.make(C.content_of('numeric', n, 1), version=v, error=lvl, mode='numeric', boost_error=False,
                      mask=(T.ORDER.index(v) + 1) % (4 if T.is_micro(v) else 8))


def gen_cases(tier):
    vers = QUICK_VERS if tier == 'quick' else T.ORDER
    for v in vers:
        for kind in COLORS:
            yield ('fmt', v, kind, tier)
        yield ('text', v)
    yield ('alias',)
    # the other routes to the same file: file name with the extension in lower / upper / mixed case, a one-symbol sequence, the command line tool
    for v in ('M2', 'M4', 1, 2) if tier == 'quick' else ('M1', 'M2', 'M3', 'M4', 1, 2, 7):
        for kind in COLORS:
            yield ('routes', v, kind)
    for i in range(0, len(Co.NAMED), 10):
        yield ('names', i)


def module_at(m, size, s, b, x, y):
    i, j = y // s - b, x // s - b
    return 1 if (0 <= i < size and 0 <= j < size and m[i][j]) else 0


def symbol_argv(v):
    """command line that creates the same symbol as symbol(v)"""
    lvl = T.levels_of(v)[0]
    n = max(1, C.max_count('numeric', v, lvl) * 2 // 3)
    argv = ['--version', str(v), '--mode', 'numeric', '--no-error-boost', '--pattern', str((T.ORDER.index(v) + 1) % (4 if T.is_micro(v) else 8))]
    if lvl is not None:
        argv += ['--error', lvl]
    return argv, C.content_of('numeric', n, 1)


def produce(qr, v, kind, args, route):
    """the file for (symbol, kind, options) through one of the routes a user has: stream, file name (extension in any letter
    case), a one-symbol sequence, the command line tool"""
    binary = kind in READ
    if route == 'stream':
        out = io.BytesIO() if binary else io.StringIO()
        qr.save(out, kind=kind, **args)
        return out.getvalue()
    tmp = tempfile.mkdtemp(prefix='verif-c09-')
    try:
        ext = {'lower': kind, 'upper': kind.upper(), 'mixed': kind.capitalize()}[route.split(':')[1]]
        path = os.path.join(tmp, 'Out.' + ext)
        if route.startswith('path:'):
            qr.save(path, **args)
        elif route.startswith('seq:'):
            seq = segno.make_sequence(symbol_argv(v)[1], version=v, error=T.levels_of(v)[0], mode='numeric', boost_error=False, mask=qr.mask)
            if len(seq) != 1 or seq[0].matrix != qr.matrix:
                raise AssertionError('make_sequence gives another symbol')
            seq.save(path, **args)
        elif route.startswith('cli:'):
            from segno import cli
            argv, content = symbol_argv(v)
            for k, val in args.items():
                flag = {'scale': '--scale', 'border': '--border', 'dark': '--dark', 'light': '--light', 'dpi': '--dpi'}[k]
                argv += [flag, 'transparent' if val is None else str(val)]
            with contextlib.redirect_stdout(io.StringIO()), contextlib.redirect_stderr(io.StringIO()) as err:
                try:
                    rc = cli.main(argv + ['--output', path, content])
                except SystemExit as e:
                    raise ValueError('command line tool refused: %s %s' % (e.code, err.getvalue()[-80:]))
            if rc != 0:
                raise ValueError('command line tool returned %r' % rc)
        else:
            raise AssertionError(route)
        data = open(path, 'rb').read()
        return data if binary else data.decode('utf-8')
    finally:
        shutil.rmtree(tmp, ignore_errors=True)


def one(v, kind, kw, dark, light, scale, border, acc, route='stream'):
    case = ('one', v, kind, kw, dark, light, scale, border) + ((route,) if route != 'stream' else ())
    qr = symbol(v)
    size = T.size_of(v)
    m = qr.matrix
    args = dict(kw)
    args['scale'] = scale
    if border is not None:
        args['border'] = border
    try:
        data = produce(qr, v, kind, args, route)
        exc = None
    except AssertionError:
        raise
    except Exception as e:
        exc = e
    s = int(scale)
    bb = (2 if T.is_micro(v) else 4) if border is None else border
    fam = '%s/%s' % (kind, 'fractional-scale' if scale != s else 'int-scale')
    if s < 1:
        acc.eval(case, nontrivial=True, outcome='exc:%s' % (C.exc_name(exc) if exc else None), state=(kind, 'scale<1'))
        if exc is None:
            acc.violation('scale-below-1-accepted/' + kind, 'save(kind=%r, scale=%r) wrote a file instead of raising ValueError' % (kind, scale), case)
        elif not isinstance(exc, ValueError):
            acc.violation('scale-below-1-exception/' + kind, 'save(kind=%r, scale=%r) raised %s instead of ValueError' % (kind, scale, C.exc_name(exc)), case)
        else:
            acc.count('refused_scale')
        return
    if exc is not None:
        acc.eval(case, nontrivial=False, outcome='exc:' + C.exc_name(exc))
        acc.violation('exception/%s/%s' % (kind, C.exc_name(exc)), 'save(kind=%r, **%r) raised %s: %s' % (kind, args, C.exc_name(exc), str(exc)[:80]), case)
        return
    try:
        if kind in READ:
            w, h, px, info = READ[kind](data)
        elif kind == 'xbm':
            w, h, px, info = R.read_xbm(data, name=kw.get('name', 'img'))
        else:
            w, h, px, info = R.read_xpm(data, name=kw.get('name', 'img'))
    except R.Malformed as e:
        acc.eval(case, nontrivial=True, outcome='malformed', state=(kind, scale != s))
        acc.violation('malformed/' + fam, '%s file is not well-formed: %s  [scale=%r border=%r %r]' % (kind, e, scale, border, kw), case)
        return
    exp = (size + 2 * bb) * s
    acc.count('files')
    if kind == 'png':
        acc.add('png_residues', (info['depth'], (w * info['depth']) % 8))
        acc.add('png_types', (info['ctype'], info['depth']))
    if kind == 'pam':
        acc.add('pam_types', info['tupltype'])
    state = (kind, v, scale, border, tuple(sorted(kw)), route)
    if (w, h) != (exp, exp):
        acc.eval(case, nontrivial=True, outcome='size', state=state)
        acc.violation('size/' + fam, '%s image is %dx%d, expected %dx%d  [scale=%r border=%r]' % (kind, w, h, exp, exp, scale, border), case)
        return
    if kind == 'png' and 'dpi' in kw:
        want = int(kw['dpi'] // 0.0254)
        phys = info['phys']
        if len(phys) != 1 or phys[0][:8] != want.to_bytes(4, 'big') * 2 or phys[0][8] != 1:
            acc.violation('png-dpi', 'pHYs chunk %r for dpi=%r' % (phys, kw['dpi']), case)
    D, L = Co.rgba(dark), Co.rgba(light)
    bad = 0
    first = None
    for y in range(h):
        row = px[y]
        mi = y // s - bb
        inrow = 0 <= mi < size
        mrow = m[mi] if inrow else None
        for x in range(w):
            mj = x // s - bb
            isdark = inrow and 0 <= mj < size and mrow[mj]
            if not Co.same_px(row[x], D if isdark else L):
                bad += 1
                if first is None:
                    first = (x, y, row[x], D if isdark else L)
    acc.eval(case, nontrivial=True, outcome=(bad == 0), state=state)
    acc.sample({'version': v, 'kind': kind, 'args': args, 'size': [w, h]})
    if bad:
        acc.violation('pixels/%s/%s' % (kind, 'transparent-light' if light is None else ('transparent-dark' if dark is None else 'opaque')),
                      '%s: %d wrong pixels, first at (x=%d, y=%d): %r, expected %r  [dark=%r light=%r scale=%r border=%r %r]'
                      % (kind, bad, first[0], first[1], first[2], first[3], dark, light, scale, border, kw), case)


def parse_ansi(text):
    rows = []
    for line in text.split('\n')[:-1]:
        row = []
        pos = 0
        for mm in re.finditer(r'\x1b\[(7|49)m((?:  )+)\x1b\[0m', line):
            if mm.start() != pos:
                raise R.Malformed('ANSI garbage at %d' % pos)
            pos = mm.end()
            row += [0 if mm.group(1) == '7' else 1] * (len(mm.group(2)) // 2)
        if pos != len(line):
            raise R.Malformed('ANSI trailing garbage')
        rows.append(row)
    if not text.endswith('\n'):
        raise R.Malformed('no final newline')
    return rows


def parse_compact(text, nrows):
    inv = {' ': (1, 1), '▀': (0, 1), '▄': (1, 0), '█': (0, 0)}
    rows = []
    lines = text.split('\n')
    if lines[-1] != '':
        raise R.Malformed('no final newline')
    for line in lines[:-1]:
        try:
            pairs = [inv[ch] for ch in line]
        except KeyError as e:
            raise R.Malformed('character %r' % e)
        rows.append([p[0] for p in pairs])
        rows.append([p[1] for p in pairs])
    if len(rows) not in (nrows, nrows + 1):
        raise R.Malformed('%d rows for %d module rows' % (len(rows), nrows))
    if len(rows) == nrows + 1:
        if any(b != 1 for b in rows[-1]):
            raise R.Malformed('filler half row is not blank')
        rows.pop()
    return rows


def text_outputs(v, acc):
    qr = symbol(v)
    size = T.size_of(v)
    m = qr.matrix
    for border in (None, 0, 1, 3):
        bb = (2 if T.is_micro(v) else 4) if border is None else border
        n = size + 2 * bb
        want = [[module_at(m, size, 1, bb, x, y) for x in range(n)] for y in range(n)]
        names = ('txt', 'txt-chars', 'ans', 'terminal', 'compact')
        if size <= 29:
            names += ('cli-terminal', 'cli-compact') + (() if T.is_micro(v) else ('seq-terminal', 'seq-compact', 'cli-seq-terminal', 'cli-seq-compact'))
        for name in names:
            case = ('text1', v, border, name)
            out = io.StringIO()
            try:
                if name.startswith('seq-'):
                    seq = segno.make_sequence(symbol_argv(v)[1], version=v, error=T.levels_of(v)[0], mode='numeric', boost_error=False, mask=qr.mask)
                    if len(seq) != 1 or seq[0].matrix != m:
                        raise AssertionError('make_sequence gives another symbol')
                    seq.terminal(out=out, border=border, compact=name.endswith('compact'))
                    got = parse_compact(out.getvalue(), n) if name.endswith('compact') else parse_ansi(out.getvalue())
                elif name.startswith('cli-'):
                    from segno import cli
                    argv, content = symbol_argv(v)
                    if '-seq-' in name:
                        argv.append('--seq')
                    if border is not None:
                        argv += ['--border', str(border)]
                    if name.endswith('compact'):
                        argv.append('--compact')
                    with contextlib.redirect_stdout(out):
                        rc = cli.main(argv + [content])
                    if rc != 0:
                        raise R.Malformed('command line tool returned %r' % rc)
                    got = parse_compact(out.getvalue(), n) if name.endswith('compact') else parse_ansi(out.getvalue())
                elif name == 'txt':
                    qr.save(out, kind='txt', border=border)
                    got = [[int(ch) for ch in ln] for ln in out.getvalue().split('\n')[:-1]]
                    if not re.fullmatch(r'(?:[01]+\n)+', out.getvalue()):
                        raise R.Malformed('txt syntax')
                elif name == 'txt-chars':
                    qr.save(out, kind='txt', border=border, dark='#', light='.')
                    if not re.fullmatch(r'(?:[#.]+\n)+', out.getvalue()):
                        raise R.Malformed('txt syntax')
                    got = [[1 if ch == '#' else 0 for ch in ln] for ln in out.getvalue().split('\n')[:-1]]
                elif name == 'ans':
                    qr.save(out, kind='ans', border=border)
                    got = parse_ansi(out.getvalue())
                elif name == 'terminal':
                    qr.terminal(out=out, border=border)
                    got = parse_ansi(out.getvalue())
                else:
                    qr.terminal(out=out, border=border, compact=True)
                    got = parse_compact(out.getvalue(), n)
            except R.Malformed as e:
                acc.eval(case, nontrivial=True, outcome='malformed')
                acc.violation('text-malformed/' + name, '%s output of %s (border=%r): %s' % (name, v, border, e), case)
                continue
            except Exception as e:
                acc.eval(case, nontrivial=False, outcome='exc')
                acc.violation('text-exception/' + name, '%s output raised %s: %s' % (name, C.exc_name(e), str(e)[:60]), case)
                continue
            acc.eval(case, nontrivial=True, outcome=(got == want), state=(name, v, border))
            acc.count('text_files')
            if got != want:
                acc.violation('text-grid/' + name, '%s output of %s (border=%r) does not equal the module grid (%dx%d vs %dx%d)'
                              % (name, v, border, len(got), len(got[0]) if got else 0, n, n), case)


def alias_case(acc):
    """CSS colour keywords that are defined as synonyms must paint identical files (covers table rows the alphabet does not name)"""
    qr = symbol('M2')
    for a, b in GREY_ALIASES:
        for kind in ('png', 'ppm', 'xpm', 'pam'):
            outs = []
            for name in (a, b, a.upper()):
                o = io.BytesIO() if kind in READ else io.StringIO()
                try:
                    qr.save(o, kind=kind, dark=name, light='#fedcba')
                    outs.append(o.getvalue())
                except Exception as e:
                    outs.append('exc:' + C.exc_name(e))
            acc.eval(('alias', a, b, kind), nontrivial=True, outcome=len(set(outs)) == 1, state=('alias', kind))
            if len(set(outs)) != 1:
                acc.violation('colour-synonyms/%s' % kind, '%s: dark=%r, %r and %r do not give the same file' % (kind, a, b, a.upper()), ('alias',))


def run_case(case, acc):
    kind = case[0]
    if kind == 'alias':
        return alias_case(acc)
    if kind == 'names':
        names = sorted(Co.NAMED)[case[1]:case[1] + 10]
        for nm in names:
            for fmt in ('png', 'ppm', 'xpm', 'pam'):
                one('M1', fmt, {'dark': nm, 'light': '#010203' if fmt != 'xpm' else '#fefefe'}, nm, '#010203' if fmt != 'xpm' else '#fefefe', 1, 1, acc)
                one('M1', fmt, {'dark': '#fdfcfb', 'light': nm.upper()}, '#fdfcfb', nm, 1, 0, acc)
        return
    if kind == 'fmt':
        v, fmt = case[1], case[2]
        size = T.size_of(v)
        quick = len(case) > 3 and case[3] == 'quick'
        for ci, (kw, dark, light) in enumerate(COLORS[fmt]):
            for scale in (1, 2, 3, 2.5, 0.5, 4, 8):
                for border in (None, 0, 1, 3):
                    # geometry x colour: the first colour variants of each format with every (scale, border); the rest of the colour
                    # alphabet at two scales and two borders (quick) - the thorough tier runs the complete product
                    if quick and ci >= 4 and not (scale in (1, 3) and border in (None, 1)):
                        continue
                    if size > 60 and scale == 3 and border is not None:
                        continue
                    if scale in (4, 8) and (size > 25 or border not in (None, 1)):
                        continue        # (size+2b)*s mod 8 in {0, 4} needs s = 4 or 8: small symbols are enough
                    for extra in EXTRA.get(fmt, [{}]):
                        if extra and (kw or scale != 1):
                            continue
                        k2 = dict(kw)
                        k2.update(extra)
                        one(v, fmt, k2, dark, light, scale, border, acc)
    elif kind == 'routes':
        v, fmt = case[1], case[2]
        for ci, (kw, dark, light) in enumerate(COLORS[fmt]):
            if any(not isinstance(x, (str, type(None))) for x in kw.values()) or set(kw) - {'dark', 'light'}:
                continue          # (tuples cannot be written on a command line)
            if ci >= 3:
                break
            for r in ('path', 'seq', 'cli'):
                for cs in ('lower', 'upper', 'mixed'):
                    if r == 'seq' and (cs != 'lower' or T.is_micro(v)):
                        continue
                    for scale, border in ((1, None), (3, 1), (2, 0)):
                        one(v, fmt, dict(kw), dark, light, scale, border, acc, route='%s:%s' % (r, cs))
                        acc.count('route_files')
    elif kind == 'one':
        v, fmt, kw, dark, light, scale, border = case[1:8]
        one(v, fmt, dict(kw), dark, light, scale, border, acc, route=case[8] if len(case) > 8 else 'stream')
    elif kind == 'text':
        text_outputs(case[1], acc)
    elif kind == 'text1':
        text_outputs(case[1], acc)
    else:
        raise ValueError(kind)


def obligations(agg, tier):
    res = agg.sets.get('png_residues', set())
    for depth in {d for d, _ in res}:
        got = {r for d, r in res if d == depth}
        need = set(range(0, 8, depth)) if depth < 8 else {0}
        if depth == 1 and not need <= got:
            yield 'PNG depth %d: row-width residues %r of %r' % (depth, sorted(got), sorted(need))
    if not {(0, 1), (3, 1)} <= agg.sets.get('png_types', set()):
        yield 'PNG colour types seen: %r' % sorted(agg.sets.get('png_types', ()))
    if not {'BLACKANDWHITE', 'GRAYSCALE_ALPHA', 'RGB', 'RGB_ALPHA'} <= agg.sets.get('pam_types', set()):
        yield 'PAM tuple types seen: %r' % sorted(agg.sets.get('pam_types', ()))
    if agg.ctr.get('refused_scale', 0) < 10:
        yield 'scale < 1 refusals: %d' % agg.ctr.get('refused_scale', 0)
    if agg.ctr.get('text_files', 0) < 100:
        yield 'text outputs compared: %d' % agg.ctr.get('text_files', 0)
