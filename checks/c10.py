"""C10 - vector outputs (SVG, EPS, PDF, PGF/TikZ) paint exactly the dark modules.

Independent readers (readers/vector.py) parse each document (XML / PostScript operator subset / PDF objects, xref,
Flate content stream / PGF commands), apply the document's own transform and rasterise the stroked segments onto the
module grid."""
import io
import itertools

from qrref import tables as T
from readers import vector as V, colors as Co
from . import common as C
from .common import segno

ID = 'C10'
LEVEL = 'exploration'
TITLE = 'Vector outputs (SVG, EPS, PDF, LaTeX) paint exactly the dark modules'
RULE = ('one real symbol per symbol size x scale {1,2,10,0.5,2.5,3.3,0.125,2.675,1/3} x border {None,0,1} x colour variants x (SVG) all option vectors with '
        '<= k deviations from the defaults; each document is parsed by an independent reader: page = (size+2b)*s, module size = page/cells '
        '= line width, covered cells = exactly the dark modules each once, nothing outside the page, stroke colour/opacity as requested, a '
        'light colour fills the whole page; PDF: header, every xref offset of a defined object, /Length, endobj. '
        'non-trivial = document produced and rasterised')
BOUNDS = {'quick': '12 sizes x all scales x borders with 3-4 colour variants, the full colour alphabet at scales 1 and 2.5; SVG options <= 2 deviations on 2 symbols', 'thorough': 'all 44 sizes; SVG options <= 3 deviations'}
ASSUMPTIONS = ['readers implement the operator subsets the formats define for what segno emits and reject anything else as malformed',
               'PGF has no page: coverage is compared up to one global translation', 'alpha tolerance 0.005, coordinates 1e-9 relative']
CHUNK = 1
QUICK_VERS = ('M1', 'M2', 'M3', 'M4', 1, 2, 3, 6, 7, 14, 21, 40)

DARKS = [None, 'darkblue', '#abc', (10, 20, 30), '#ff0000', '#D2B48C']
LIGHTS = [None, '#eee', 'red', (1, 2, 3), 'white']
SVG_DARKS = ['#00000080', '#00000010', '#12345678', '#000000ff', '#00000040', '#00000020', '#00000000', (1, 2, 3, 0.25)]
SVG_OPTS = [
    ('unit', [None, 'mm']), ('omitsize', [False, True]), ('svgversion', [None, 1.1, 2, 2.0]), ('draw_transparent', [False, True]),
    ('xmldecl', [True, False]), ('svgns', [True, False]), ('nl', [True, False]), ('title', [None, 'a <b> & "c" \'d\'', '']),
    ('desc', [None, '<&>"']), ('svgid', [None, 'my"id']), ('svgclass', ['segno', None, 'a b']), ('lineclass', ['qrline', None, 'x<y']),
    ('dark', ['#000', 'darkblue', '#00000080', None]), ('light', [None, '#eee', '#ffffff80']), ('scale', [1, 2.5, 0.5]), ('border', [None, 0]),
    ('encoding', ['utf-8', 'iso-8859-1', None]),
]


def symbol(v):
    lvl = T.levels_of(v)[0]
    n = max(1, C.max_count('numeric', v, lvl) // 2)
    return segno.make(C.content_of('numeric', n, 2), version=v, error=lvl, mode='numeric', boost_error=False,
                      mask=(T.ORDER.index(v) + 2) % (4 if T.is_micro(v) else 8))


QUICK = [True]


def gen_cases(tier):
    q = tier == 'quick'
    for v in (QUICK_VERS if q else T.ORDER):
        for kind in ('svg', 'eps', 'pdf', 'tex'):
            yield ('fmt', v, kind, tier)
    for v in ('M1', 'M2', 1):
        yield ('emptyrow', v)
    yield ('svgtext',)
    # the same documents by file name (extension in three letter cases) and through the command line tool
    for v in ('M3', 1, 7):
        for kind in ('svg', 'eps', 'pdf', 'tex'):
            yield ('routes', v, kind)
    for i in range(0, len(Co.NAMED), 15):
        yield ('names', i)
    from .c01 import deviations
    for v in ('M3', 2) if q else ('M3', 2, 7):
        devs = list(deviations(SVG_OPTS, 2 if q else 3))
        for i in range(0, len(devs), 40):
            yield ('svgopts', v, devs[i:i + 40])


def close(a, b, rel=1e-9):
    return abs(a - b) <= rel * max(1.0, abs(a), abs(b))


def expected_alpha(spec):
    c = Co.rgba(spec)
    return c[3] / 255.0


def check_color(kind, got, spec, what, acc, case, svgversion=None):
    """got: (colour, opacity) as found in the document; spec: requested colour."""
    if kind == 'tex':
        if got[0] != spec:
            acc.violation('colour/tex', '%s colour %r, requested %r' % (what, got[0], spec), case)
        return
    exp = Co.rgba(spec)
    if kind == 'svg':
        if got[0] is None:
            acc.violation('colour/svg', '%s has no colour, requested %r' % (what, spec), case)
            return
        try:
            r, g, b, a = Co.parse_svg_color(got[0], got[1])
        except ValueError:
            acc.violation('colour/svg', '%s colour %r is not a colour this reader knows (requested %r)' % (what, got[0], spec), case)
            return
        if (r, g, b) != tuple(exp[:3]):
            acc.violation('colour/svg', '%s colour %r, requested %r' % (what, got[0], spec), case)
        if abs(a - exp[3] / 255.0) > 0.005:
            known = None
            if isinstance(spec, tuple) and len(spec) == 4 and spec[:3] in ((0, 0, 0), (255, 255, 255)) and type(spec[3]) is int and spec[3] == 1 \
                    and a == 1.0 and (r, g, b) == tuple(exp[:3]):
                known = 'black-white-int-alpha-1-painted-opaque'
            acc.violation('alpha/svg', '%s opacity %r, requested alpha %d/255 = %.4f  (colour %r)' % (what, a, exp[3], exp[3] / 255.0, spec), case, known=known)
    else:
        r, g, b = got[0]
        if any(abs(x - y / 255.0) > 2e-6 for x, y in zip((r, g, b), exp[:3])):
            acc.violation('colour/' + kind, '%s colour %r, requested %r = %r' % (what, got[0], spec, tuple(round(y / 255.0, 6) for y in exp[:3])), case)


def find_special(v):
    """symbols of version v whose matrix has an all-light row, an all-light column, or a row that starts with a light module and ends dark"""
    found = {}
    lvl = T.levels_of(v)[0]
    for x in range(0, 4000):
        for mask in range(4):
            try:
                q = segno.make(str(x), version=v, error=lvl, mask=mask, boost_error=False)
            except ValueError:
                continue
            m = q.matrix
            if 'row' not in found and any(not any(r) for r in m):
                found['row'] = (str(x), mask)
            if 'col' not in found and any(not any(r[j] for r in m) for j in range(len(m))):
                found['col'] = (str(x), mask)
        if len(found) == 2:
            break
    return found


def via_route(qr, v, kind, kw, route):
    """the document through a file name (extension in any letter case) or the command line tool instead of a stream"""
    import contextlib
    import os
    import shutil
    import tempfile
    tmp = tempfile.mkdtemp(prefix='verif-c10-')
    try:
        how, cs = route.split(':')
        ext = {'lower': kind, 'upper': kind.upper(), 'mixed': kind.capitalize()}[cs]
        path = os.path.join(tmp, 'Out.' + ext)
        if how == 'path':
            qr.save(path, **kw)
        else:
            from segno import cli
            lvl = T.levels_of(v)[0]
            argv = ['--version', str(v), '--no-error-boost', '--pattern', str(qr.mask)] + ([] if lvl is None else ['--error', lvl])
            for k, val in kw.items():
                argv += [{'scale': '--scale', 'border': '--border', 'dark': '--dark', 'light': '--light', 'unit': '--unit'}[k], 'transparent' if val is None else str(val)]
            with contextlib.redirect_stdout(io.StringIO()), contextlib.redirect_stderr(io.StringIO()):
                rc = cli.main(argv + ['--output', path, ROUTE_CONTENT[v]])
            if rc != 0:
                raise ValueError('command line tool returned %r' % rc)
        with open(path, 'rb') as f:
            data = f.read()
        return data if kind in ('svg', 'pdf') else data.decode('utf-8')
    finally:
        shutil.rmtree(tmp, ignore_errors=True)


ROUTE_CONTENT = {}


def one(v, kind, kw, acc, content=None, route=None):
    case = (('one', v, kind, kw) if content is None else ('onec', v, kind, kw, content)) if route is None else ('oner', v, kind, kw, route)
    qr = symbol(v) if content is None else segno.make(content[0], version=v, error=T.levels_of(v)[0], mask=content[1], boost_error=False)
    size = T.size_of(v)
    m = qr.matrix
    scale = kw.get('scale', 1)
    border = kw.get('border')
    bb = (2 if T.is_micro(v) else 4) if border is None else border
    cells = size + 2 * bb
    out = io.BytesIO() if kind in ('svg', 'pdf') else io.StringIO()
    try:
        if route is None:
            qr.save(out, kind=kind, **kw)
        else:
            routed = via_route(qr, v, kind, kw, route)
    except ValueError as e:
        # documented exclusion: unit together with omitsize
        if kind == 'svg' and kw.get('unit') and kw.get('omitsize'):
            acc.eval(case, nontrivial=False, outcome='refused')
            return
        acc.eval(case, nontrivial=False, outcome='ValueError')
        acc.violation('exception/%s/ValueError' % kind, 'save(kind=%r, **%r) raised ValueError: %s' % (kind, kw, str(e)[:80]), case)
        return
    except Exception as e:
        acc.eval(case, nontrivial=False, outcome='exc:' + C.exc_name(e))
        acc.violation('exception/%s/%s' % (kind, C.exc_name(e)), 'save(kind=%r, **%r) raised %s: %s' % (kind, kw, C.exc_name(e), str(e)[:80]), case)
        return
    data = out.getvalue() if route is None else routed
    fam = '%s/%s' % (kind, 'scale<1' if scale < 1 else ('fractional' if scale != int(scale) else 'int'))
    try:
        if kind == 'svg':
            enc = kw.get('encoding', 'utf-8') or 'utf-8'
            text = data.decode(enc)
            if kw.get('xmldecl', True) != text.startswith('<?xml'):
                raise V.Malformed('xml declaration %s' % ('missing' if kw.get('xmldecl', True) else 'present'))
            if kw.get('nl', True) != text.endswith('\n'):
                raise V.Malformed('trailing newline %s' % ('missing' if kw.get('nl', True) else 'present'))
            doc = V.read_svg(data if text.startswith('<?xml') else text)
        else:
            doc = {'eps': V.read_eps, 'pdf': V.read_pdf, 'tex': V.read_tex}[kind](data)
    except V.Malformed as e:
        acc.eval(case, nontrivial=True, outcome='malformed', state=(kind, 'malformed'))
        acc.violation('malformed/' + kind, '%s document is not well-formed: %s  [%r]' % (kind, e, kw), case)
        return
    except Exception as e:
        acc.eval(case, nontrivial=True, outcome='unparsable', state=(kind, 'unparsable'))
        acc.violation('malformed/' + kind, '%s document cannot be parsed (%s: %s)  [%r]' % (kind, C.exc_name(e), str(e)[:80], kw), case)
        return
    acc.count('documents')
    exp = cells * scale
    nviol0 = sum(acc.vcount.values())
    if kind != 'tex':
        if not (close(doc.page[0], exp) and close(doc.page[1], exp)):
            acc.violation('page/' + fam, '%s page is %r, expected %r square  [%r]' % (kind, doc.page, exp, kw), case)
        mod = doc.page[0] / cells
        if kind == 'svg' and not doc.segs:
            doc.unit = mod
        if not close(doc.unit, mod, 1e-9):
            acc.violation('scale-transform/' + fam, '%s: module size after the document transform is %r but page/cells = %r  [%r]'
                          % (kind, doc.unit, mod, kw), case)
        origin = (0.0, 0.0)
    else:
        if not close(doc.unit, scale):
            acc.violation('scale-transform/' + fam, 'tex: line width %r, expected %r' % (doc.unit, scale), case)
        if doc.info.get('unit') != kw.get('unit', 'pt'):
            acc.violation('tex-unit', 'unit %r, requested %r' % (doc.info.get('unit'), kw.get('unit', 'pt')), case)
        if doc.info.get('url') != kw.get('url'):
            acc.violation('tex-url', 'url %r, requested %r' % (doc.info.get('url'), kw.get('url')), case)
        # one global translation: top-left dark module (finder corner) -> cell (b, b)
        xs = [min(s[0], s[2]) for s in doc.segs]
        ys = [s[1] for s in doc.segs]
        origin = (min(xs) - bb * doc.unit, min(ys) - (bb + 0.5) * doc.unit) if doc.segs else (0.0, 0.0)
    if kind == 'svg' and kw.get('dark', '#000') is None and not kw.get('draw_transparent') and not doc.segs:
        # interpretation: dark=None means "no colour" and draw_transparent=False means "do not add transparent paths":
        # a document without a path for the dark modules is accepted; only page, background and structure are judged
        acc.count('svg_dark_none_not_drawn')
        no_dark_path = True
    else:
        no_dark_path = False
        if kind == 'svg' and not doc.segs:
            doc.unit = doc.page[0] / cells
    grid, probs = V.paint_grid(doc, cells, origin)
    for p in probs[:2]:
        acc.violation('geometry/' + fam, '%s: %s  [%r]' % (kind, p, kw), case)
    bad = 0
    first = None
    for r in range(cells):
        for c in range(cells):
            i, j = r - bb, c - bb
            d = 1 if (0 <= i < size and 0 <= j < size and m[i][j]) else 0
            if len(grid[r][c]) != d and not no_dark_path:
                bad += 1
                first = first or (r, c, len(grid[r][c]), d)
    if bad:
        acc.violation('coverage/' + fam, '%s: %d cells painted wrongly, first (row %d, col %d) painted %d times, module dark=%d  [%r]'
                      % ((kind, bad) + first + (kw,)), case)
    # colours
    dark = kw.get('dark', 'black' if kind == 'tex' else '#000')
    strokes = {s[5:7] for s in doc.segs}
    if len(strokes) > 1:
        acc.violation('colour/' + kind, 'segments in %d different colours' % len(strokes), case)
    elif strokes:
        got = next(iter(strokes))
        if kind == 'svg' and dark is None:
            if got[0] is not None:
                acc.violation('colour/svg', 'dark=None but the path has stroke %r' % (got[0],), case)
        else:
            check_color(kind, got, dark, 'stroke', acc, case)
    light = kw.get('light')
    if kind != 'tex':
        if light is not None:
            full = [f for f in doc.fills if f[0] <= 1e-9 and f[1] <= 1e-9 and f[0] + f[2] >= doc.page[0] * (1 - 1e-9)
                    and f[1] + f[3] >= doc.page[1] * (1 - 1e-9)]
            if not doc.fills:
                acc.violation('background-missing/' + kind, '%s: light=%r requested but nothing fills the page  [%r]' % (kind, light, kw), case)
            elif not full:
                acc.violation('background-short/' + fam, '%s: background %r does not cover the page %r  [%r]' % (kind, doc.fills[0][:4], doc.page, kw), case)
            else:
                check_color(kind, (full[0][4], full[0][5]), light, 'background', acc, case)
        elif doc.fills:
            acc.violation('background-unrequested/' + kind, '%s: background painted although no light colour was requested' % kind, case)
    if kind == 'svg':
        svg_structure(doc, kw, acc, case)
    ok = sum(acc.vcount.values()) == nviol0
    acc.eval(case, nontrivial=True, outcome=(kind, ok), state=(kind, v, tuple(sorted((k, repr(x)) for k, x in kw.items()))))
    acc.add('kinds', (kind, scale < 1, scale != int(scale), light is not None))
    acc.sample({'version': v, 'kind': kind, 'kw': kw, 'page': doc.page, 'segments': len(doc.segs)})


def svg_structure(doc, kw, acc, case):
    a = doc.info['attrs']
    for opt, attr in (('svgid', 'id'), ('svgclass', 'class')):
        want = kw.get(opt, 'segno' if opt == 'svgclass' else None)
        if (want or None) != a.get(attr):
            acc.violation('svg-attr', 'attribute %s=%r, requested %s=%r' % (attr, a.get(attr), opt, want), case)
    if (doc.info['ns'] == 'http://www.w3.org/2000/svg') != kw.get('svgns', True):
        acc.violation('svg-attr', 'namespace %r with svgns=%r' % (doc.info['ns'], kw.get('svgns', True)), case)
    for opt in ('title', 'desc'):
        want = kw.get(opt)
        got = doc.info[opt]
        if want is None:
            if got:
                acc.violation('svg-text', '%s element present although not requested' % opt, case)
        elif got != [want] and not (want == '' and got == [None]):
            acc.violation('svg-text', '%s parses back to %r, requested %r' % (opt, got, want), case)
    unit = kw.get('unit') or ''
    if doc.info.get('unit', '') != unit and not kw.get('omitsize'):
        acc.violation('svg-attr', 'width/height unit %r, requested %r' % (doc.info.get('unit'), unit), case)
    if kw.get('omitsize') and ('width' in a or 'height' in a):
        acc.violation('svg-attr', 'omitsize=True but width/height present', case)
    ver = kw.get('svgversion')
    if ver is not None and ver < 2:
        if a.get('version') != str(ver):
            acc.violation('svg-attr', 'version attribute %r for svgversion=%r' % (a.get('version'), ver), case)
    elif 'version' in a:
        acc.violation('svg-attr', 'version attribute %r for svgversion=%r' % (a.get('version'), ver), case)


def run_case(case, acc):
    kind = case[0]
    if kind == 'fmt':
        v, fmt = case[1], case[2]
        QUICK[0] = len(case) > 3 and case[3] == 'quick'
        for scale in (1, 2, 10, 0.5, 2.5, 3.3, 0.125, 2.675, 1 / 3):
            for border in (None, 0, 1):
                if scale in (0.125, 2.675, 1 / 3) and (border == 0 or T.size_of(v) > 25):
                    continue                # scales that need three or more decimals: small symbols are enough
                base = {}
                if scale != 1:
                    base['scale'] = scale
                if border is not None:
                    base['border'] = border
                if fmt == 'tex':
                    variants = [{}, {'dark': 'blue'}, {'unit': 'mm'}, {'url': 'http://example.org/?a=b'}, {'dark': 'black'}]
                else:
                    variants = [{}]
                    variants += [{'dark': d} for d in DARKS if d is not None or fmt == 'svg']
                    variants += [{'light': x} for x in LIGHTS[1:]]
                    variants += [{'dark': '#abc', 'light': 'red'}, {'dark': 'white', 'light': 'black'}]
                    if fmt in ('eps', 'pdf'):
                        # both documented tuple spellings: integers 0..255 and floats 0.0..1.0 (colliding values on purpose)
                        variants += [{'dark': (1.0, 0.0, 0.0)}, {'dark': (1, 0, 0)}, {'light': (1.0, 1.0, 1.0)}, {'light': (1, 1, 1)},
                                     {'dark': (0.5, 0.25, 1.0)}, {'dark': (0, 0, 1)}, {'dark': (0.0, 0.0, 1.0)},
                                     # floats with every channel below 1.0, black and white as floats, an int triple below 2
                                     {'dark': (0.5, 0.25, 0.75)}, {'light': (0.25, 0.5, 0.75)}, {'dark': (0.0, 0.5, 0.0), 'light': (0.9, 0.9, 0.5)},
                                     {'dark': (0.0, 0.0, 0.0)}, {'dark': (0.99, 0.99, 0.99)}, {'dark': (1, 1, 0)}, {'dark': (0, 1, 1), 'light': (1, 0, 1)}]
                    if fmt == 'pdf':
                        variants += [{'compresslevel': 0}, {'compresslevel': 1, 'light': '#eee'}]
                    if fmt == 'svg':
                        variants += [{'dark': (255, 0, 0, 1)}, {'dark': (255, 0, 0, 1.0)}, {'dark': (255, 0, 0, 0)}, {'dark': (255, 0, 0, 0.0)}]
                        # black and white with the two alpha spellings that compare equal (int 1 = 1/255, float 1.0 = opaque)
                        variants += [{'dark': (0, 0, 0, 1)}, {'dark': (0, 0, 0, 1.0)}, {'dark': (0, 0, 0, 255)}, {'dark': (0, 0, 0), 'light': (255, 255, 255, 1)},
                                     {'light': (255, 255, 255, 1.0)}, {'dark': (255, 255, 255, 1), 'light': (0, 0, 0, 1)}]
                        variants += [{'dark': d} for d in SVG_DARKS]
                        variants += [{'dark': '#00000010', 'svgversion': 2}, {'light': '#ffffff10'}, {'dark': '#0008', 'light': '#fff8', 'svgversion': 2.0}]
                # geometry x colour: every (scale, border) with the plain, dark-coloured and light-filled variants; the full colour
                # alphabet on two scales with the default border (quick) - the thorough tier runs the complete product
                full = (not QUICK[0]) or (border is None and scale in (1, 2.5))
                for vi, var in enumerate(variants):
                    if not full and vi > 0 and var not in ({'light': '#eee'}, {'dark': 'darkblue'}, {'dark': 'blue'}, {'dark': '#abc', 'light': 'red'}):
                        continue
                    kw = dict(base)
                    kw.update(var)
                    one(v, fmt, kw, acc)
    elif kind == 'names':
        for nm in sorted(Co.NAMED)[case[1]:case[1] + 15]:
            for fmt in ('svg', 'eps', 'pdf'):
                one('M1', fmt, {'dark': nm, 'light': '#010203'}, acc)
                one('M1', fmt, {'dark': '#fdfcfb', 'light': nm.upper(), 'border': 0}, acc)
    elif kind == 'svgtext':
        # every XML-significant character and sequence, alone and combined, in the text options: the document must stay well-formed
        # (the reader is expat) and the text must parse back
        atoms = ['<', '>', '&', '"', "'", ']]>', ']]', ']>', '&amp;', '&#38;', '&lt;', '<!--', '-->', '<![CDATA[', '<?x?>', '%20', '\u20ac', '\t', ' a ', 'a]]>b', 'm[r[0]]> 7']
        texts = list(atoms) + [a + b for a in atoms[:8] for b in atoms[:8] if a != b]
        for t in texts:
            for opt in ('title', 'desc'):
                one('M2', 'svg', {opt: t}, acc)
            one('M2', 'svg', {'title': t, 'desc': t, 'svgid': 'i', 'encoding': 'iso-8859-1'} if all(ord(c) < 256 for c in t) else {'title': t, 'desc': t}, acc)
    elif kind == 'routes':
        v, fmt = case[1], case[2]
        lvl = T.levels_of(v)[0]
        ROUTE_CONTENT[v] = C.content_of('numeric', max(1, C.max_count('numeric', v, lvl) // 2), 2)
        variants = [{}, {'scale': 2.5, 'border': 1}, {'scale': 3, 'border': 0, 'dark': '#336699'}, {'scale': 0.5}]
        if fmt != 'tex':
            variants += [{'dark': 'darkblue', 'light': '#eee'}, {'scale': 2, 'light': 'yellow'}]
        else:
            variants += [{'unit': 'mm'}, {'dark': 'blue', 'scale': 2}]
        for kw in variants:
            for r in ('path:lower', 'path:upper', 'path:mixed', 'cli:lower', 'cli:upper'):
                one(v, fmt, dict(kw), acc, route=r)
                acc.count('route_documents')
    elif kind == 'oner':
        v = case[1]
        ROUTE_CONTENT[v] = C.content_of('numeric', max(1, C.max_count('numeric', v, T.levels_of(v)[0]) // 2), 2)
        one(v, case[2], dict(case[3]), acc, route=case[4])
    elif kind == 'emptyrow':
        v = case[1]
        found = find_special(v)
        acc.add('special', (v, tuple(sorted(found))))
        for what, content in sorted(found.items()):
            for fmt in ('svg', 'eps', 'pdf', 'tex'):
                for kw in ({}, {'border': 0}, {'scale': 2.5, 'border': 1}, {'light': '#eee'} if fmt != 'tex' else {'unit': 'mm'}):
                    one(v, fmt, dict(kw), acc, content=content)
    elif kind == 'onec':
        one(case[1], case[2], dict(case[3]), acc, content=tuple(case[4]))
    elif kind == 'svgopts':
        _, v, devs = case
        for kw in devs:
            one(v, 'svg', dict(kw), acc)
    elif kind == 'one':
        one(case[1], case[2], dict(case[3]), acc)
    else:
        raise ValueError(kind)


def obligations(agg, tier):
    kinds = agg.sets.get('kinds', set())
    for k in ('svg', 'eps', 'pdf', 'tex'):
        if not any(x[0] == k and x[1] for x in kinds) or not any(x[0] == k and x[2] and not x[1] for x in kinds):
            yield '%s: no document with scale < 1 / fractional scale > 1 was rasterised' % k
    for k in ('svg', 'eps', 'pdf'):
        if not any(x[0] == k and x[3] for x in kinds):
            yield '%s: no document with a light colour was rasterised' % k
    if not any('row' in sp[1] for sp in agg.sets.get('special', ())):
        yield 'no symbol with an all-light row was found for the empty-row family'
    if agg.ctr.get('documents', 0) < 3000:
        yield 'documents parsed: %d' % agg.ctr.get('documents', 0)
