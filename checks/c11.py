"""C11 - module iteration and per-type colouring.

Every module position of all 44 symbol sizes x border x scale is compared with qrref.layout.classify (the ISO module
type of the position); colourful PNG / SVG / PPM outputs are parsed back and every cell's colour compared with the
colour configured for its type (subsets of the 15 per-type options, exhaustive up to a size bound; thorough: all 2^15
subsets for PNG on M4 and version 7)."""
import io
import itertools

from qrref import tables as T, layout as Lo
from readers import raster as R, vector as V, colors as Co
from . import common as C
from .common import segno

ID = 'C11'
LEVEL = 'exploration'
TITLE = 'Module iteration and per-type colouring classify every module correctly'
RULE = ('every module position of one real symbol per each of the 44 sizes x border {None,0,1,3} x scale {1,2,3}: plain iteration equals '
        'the matrix with a light quiet zone; verbose iteration equals the ISO type of the position (qrref geometry) in the variant of the '
        'module value, type >> 8 non-zero iff dark; invalid border/scale must raise ValueError; colourful PNG/SVG/PPM: all subsets of size '
        '<= k of the 15 per-type colour options, every pixel/cell compared with the colour configured for its type. non-trivial = iteration '
        'or file produced and compared cell by cell')
BOUNDS = {'quick': 'positions: all 44 sizes; colour subsets of size <= 2 on M2, M4, 1, 2, 7 (PNG, SVG, PPM)',
          'thorough': 'all 2^15 subsets for PNG on M4 and 7; subsets <= 3 for SVG and PPM on M4, 2, 7'}
ASSUMPTIONS = ['qrref.layout function map drawn from ISO 18004 6.3 / 7.9 / 7.10 (validated by decoding ISO figures)',
               'segno.consts.TYPE_* names are the documented vocabulary; their numeric values are read from the library']
KNOWN = {'qr-row8-col-size-minus-9-typed-format':
         'QR symbols: the data module at (row 8, column size-9) is reported as FORMAT_{LIGHT,DARK} (correct dark/light variant) instead of '
         'DATA_{LIGHT,DARK}; colourful outputs paint it with the format colour when one is configured'}
CHUNK = 1

OPTS = ['finder_dark', 'finder_light', 'data_dark', 'data_light', 'version_dark', 'version_light', 'format_dark', 'format_light',
        'alignment_dark', 'alignment_light', 'timing_dark', 'timing_light', 'separator', 'dark_module', 'quiet_zone']
OPT_COLOR = {o: '#%02x%02x%02x' % (16 + 13 * i, 250 - 11 * i, (37 * i + 5) % 251) for i, o in enumerate(OPTS)}
K = segno.consts
CLS2NAME = {Lo.FINDER: 'FINDER_PATTERN', Lo.TIMING: 'TIMING', Lo.ALIGNMENT: 'ALIGNMENT_PATTERN', Lo.FORMAT: 'FORMAT',
            Lo.VERSION: 'VERSION', Lo.DATA: 'DATA'}
CLS2OPT = {Lo.FINDER: 'finder', Lo.TIMING: 'timing', Lo.ALIGNMENT: 'alignment', Lo.FORMAT: 'format', Lo.VERSION: 'version', Lo.DATA: 'data'}


def expected_type(cls, val):
    if cls == Lo.SEPARATOR:
        return K.TYPE_SEPARATOR
    if cls == Lo.DARKMODULE:
        return K.TYPE_DARKMODULE
    return getattr(K, 'TYPE_%s_%s' % (CLS2NAME[cls], 'DARK' if val else 'LIGHT'))


def expected_option(cls, val):
    if cls == Lo.SEPARATOR:
        return 'separator', 'light'
    if cls == Lo.DARKMODULE:
        return 'dark_module', 'dark'
    return CLS2OPT[cls] + ('_dark' if val else '_light'), ('dark' if val else 'light')


def symbol(v):
    lvl = T.levels_of(v)[-1]
    n = max(1, C.max_count('numeric', v, lvl) // 2)
    return segno.make(C.content_of('numeric', n, 0), version=v, error=lvl, mode='numeric', boost_error=False,
                      mask=T.ORDER.index(v) % (4 if T.is_micro(v) else 8))


def gen_cases(tier):
    for v in T.ORDER:
        yield ('iter', v)
    yield ('invalid',)
    q = tier == 'quick'
    for kind in ('png', 'svg', 'ppm'):
        vers = ('M2', 'M4', 1, 2, 7) if q else ('M1', 'M2', 'M4', 1, 2, 7, 14)
        for v in vers:
            k = 2 if q or kind != 'png' or v not in ('M4', 7) else 2
            for r in range(0, k + 1):
                for sub in itertools.combinations(range(15), r):
                    yield ('color', kind, v, sub, r % 2)
            if kind in ('png', 'svg'):
                for sub in itertools.combinations(range(15), 1):
                    yield ('color', kind, v, sub, 2)
            for sub in itertools.combinations(range(15), 1):
                yield ('color', kind, v, sub, 3)
                if kind != 'ppm':
                    yield ('color', kind, v, sub, 4)
            # the same colour in different notations for different module types (5); semi-transparent colours next to a transparent type (6)
            for r in (1, 2):
                for sub in itertools.combinations(range(15), r):
                    if r == 2 and (sub[0] + sub[1]) % 3:
                        continue
                    yield ('color', kind, v, sub, 5)
                    if kind != 'ppm' and r == 1:
                        yield ('color', kind, v, sub, 6)
            if kind == 'png':
                # black (or another colour) that enters the picture only through per-type options while dark / light are transparent (7)
                for sub in itertools.combinations(range(15), 1):
                    yield ('color', kind, v, sub, 7)
            if kind in ('png', 'ppm') and v in (2, 7):
                # the command line tool's per-type colour flags (8)
                for sub in itertools.combinations(range(15), 1):
                    yield ('color', kind, v, sub, 8)
            if kind == 'png' and v in ('M4', 7):
                # transparent light modules + 2..4 further colours: palettes of 4, 5 and 6 entries incl. the transparent one
                for r in (2, 3, 4):
                    for sub in itertools.combinations(range(15), r):
                        if r < 4 or sub[0] < 3:
                            yield ('color', kind, v, sub, 2)
    if not q:
        for v in ('M4', 7):
            for hi in range(0, 1 << 15, 64):
                yield ('pngall', v, hi)
        for kind in ('svg', 'ppm'):
            for v in ('M4', 2, 7):
                for sub in itertools.combinations(range(15), 3):
                    yield ('color', kind, v, sub, 0)


def run_case(case, acc):
    kind = case[0]
    if kind == 'iter':
        do_iter(case[1], acc)
    elif kind == 'invalid':
        do_invalid(acc)
    elif kind == 'color':
        _, fmt, v, sub, variant = case
        do_color(fmt, v, tuple(sub), variant, acc)
    elif kind == 'pngall':
        _, v, lo = case
        for bits in range(lo, lo + 64):
            sub = tuple(i for i in range(15) if bits >> i & 1)
            do_color('png', v, sub, 0, acc)
    else:
        raise ValueError(kind)


def do_invalid(acc):
    qr = symbol(1)
    for kw in ({'border': -1}, {'border': 1.5}, {'scale': 0}, {'scale': -1}, {'scale': 0.5}, {'border': -1, 'scale': 2}):
        for verbose in (False, True):
            case = ('invalid', kw, verbose)
            try:
                rows = list(qr.matrix_iter(verbose=verbose, **kw))
                acc.eval(case, nontrivial=True, outcome='accepted')
                acc.violation('invalid-accepted', 'matrix_iter(%r, verbose=%r) yielded %d rows instead of raising ValueError' % (kw, verbose, len(rows)), ('invalid',))
            except ValueError:
                acc.eval(case, nontrivial=True, outcome='ValueError')
                acc.count('invalid_refused')
            except Exception as e:
                acc.eval(case, nontrivial=True, outcome=C.exc_name(e))
                acc.violation('invalid-exception', 'matrix_iter(%r, verbose=%r) raised %s instead of ValueError' % (kw, verbose, C.exc_name(e)), ('invalid',))


def do_iter(v, acc):
    qr = symbol(v)
    size = T.size_of(v)
    m = qr.matrix
    cls, val = Lo.function_map(v)
    dflt = 2 if T.is_micro(v) else 4
    for border in (None, 0, 1, 3):
        for scale in (1, 2, 3, 2.5):
            if size > 100 and scale == 3:
                continue
            s = int(scale)
            b = dflt if border is None else border
            n = (size + 2 * b) * s
            case = ('iter', v)
            # plain
            rows = [tuple(r) for r in qr.matrix_iter(scale=scale, border=border)]
            ok = len(rows) == n and all(len(r) == n for r in rows)
            acc.eval(('plain', v, border, scale), nontrivial=True, outcome=ok, state=(v, border, scale, 'plain'))
            if not ok:
                acc.violation('iter-size', 'matrix_iter(scale=%r, border=%r) of %s gives %dx%s, expected %dx%d'
                              % (scale, border, v, len(rows), sorted({len(r) for r in rows})[:3], n, n), case)
            else:
                bad = None
                for y in range(n):
                    i = y // s - b
                    row = rows[y]
                    for x in range(n):
                        j = x // s - b
                        e = m[i][j] if 0 <= i < size and 0 <= j < size else 0
                        if row[x] != e or row[x] not in (0, 1):
                            bad = (y, x, row[x], e)
                            break
                    if bad:
                        break
                if bad:
                    acc.violation('iter-value', 'matrix_iter(scale=%r, border=%r) of %s: value %r at (%d,%d), expected %r'
                                  % (scale, border, v, bad[2], bad[0], bad[1], bad[3]), case)
            if scale in (3, 2.5) or border == 3:
                continue
            # verbose
            rows = [tuple(r) for r in qr.matrix_iter(scale=scale, border=border, verbose=True)]
            ok = len(rows) == n and all(len(r) == n for r in rows)
            acc.eval(('verbose', v, border, scale), nontrivial=True, outcome=ok, state=(v, border, scale, 'verbose'))
            acc.count('positions', n * n if ok else 0)
            if not ok:
                acc.violation('iter-size', 'verbose matrix_iter(scale=%r, border=%r) of %s has the wrong dimensions' % (scale, border, v), case)
                continue
            for y in range(n):
                i = y // s - b
                row = rows[y]
                for x in range(n):
                    j = x // s - b
                    t = row[x]
                    if 0 <= i < size and 0 <= j < size:
                        e = expected_type(cls[i][j], m[i][j])
                        dark = m[i][j]
                    else:
                        e = K.TYPE_QUIET_ZONE
                        dark = 0
                    if t != e:
                        known = None
                        if not T.is_micro(v) and (i, j) == (8, size - 9) and cls[i][j] == Lo.DATA \
                                and t == (K.TYPE_FORMAT_DARK if dark else K.TYPE_FORMAT_LIGHT):
                            known = 'qr-row8-col-size-minus-9-typed-format'
                        acc.violation('type/%s' % cls_name(cls, i, j, size), 'module (%d,%d) of %s reported as type %r, ISO type of the position is %r (%s, value %d)'
                                      % (i, j, v, t, e, cls_name(cls, i, j, size), dark), case, obs=t, exp=e, known=known)
                    if bool(t >> 8) != bool(dark):
                        acc.violation('type-variant', 'module (%d,%d) of %s: type %r >> 8 = %r but the module is %s'
                                      % (i, j, v, t, t >> 8, 'dark' if dark else 'light'), case)
    acc.sample({'version': v, 'size': size, 'positions_per_pass': (size + 2 * dflt) ** 2})


def cls_name(cls, i, j, size):
    return cls[i][j] if 0 <= i < size and 0 <= j < size else 'quiet'


CLI_FLAG = {'alignment_dark': '--align-dark', 'alignment_light': '--align-light'}


def cli_render(qr, v, fmt, kw):
    import contextlib
    import os
    import shutil
    import tempfile
    from segno import cli
    tmp = tempfile.mkdtemp(prefix='verif-c11-')
    try:
        path = os.path.join(tmp, 'out.' + fmt)
        lvl = T.levels_of(v)[-1]
        argv = ['--version', str(v), '--error', lvl, '--mode', 'numeric', '--no-error-boost', '--pattern', str(qr.mask)]
        for k, val in kw.items():
            argv += [CLI_FLAG.get(k, '--' + k.replace('_', '-')), str(val)]
        n = max(1, C.max_count('numeric', v, lvl) // 2)
        with contextlib.redirect_stdout(io.StringIO()), contextlib.redirect_stderr(io.StringIO()):
            rc = cli.main(argv + ['--output', path, C.content_of('numeric', n, 0)])
        if rc != 0:
            raise ValueError('command line tool returned %r' % rc)
        with open(path, 'rb') as f:
            return f.read()
    finally:
        shutil.rmtree(tmp, ignore_errors=True)


def do_color(fmt, v, sub, variant, acc):
    case = ('color', fmt, v, sub, variant)
    qr = symbol(v)
    size = T.size_of(v)
    m = qr.matrix
    cls, val = Lo.function_map(v)
    kw = {OPTS[i]: OPT_COLOR[OPTS[i]] for i in sub}
    dark, light = '#000', ('#fff' if fmt != 'svg' else None)
    if variant == 3:
        # only two distinct colours in the whole map, but the option crosses the dark/light divide
        light = '#fff'
        kw = {'light': '#fff'} if fmt == 'svg' else {}
        for i in sub:
            o = OPTS[i]
            # same spelling as the defaults for SVG (its shortcut compares the colour values as given), names for the others
            if fmt == 'svg':
                kw[o] = '#fff' if (o.endswith('_dark') or o == 'dark_module') else '#000'
            else:
                kw[o] = 'white' if (o.endswith('_dark') or o == 'dark_module') else 'black'
    if variant == 4:
        # a per-type option set to None = transparent for that type only
        kw = {OPTS[i]: None for i in sub}
        if fmt == 'svg':
            light = '#eee'
            kw['light'] = light
    if variant == 5:
        dark, light = ('#000', '#fff') if len(sub) == 1 else ('blue', 'yellow')
        kw = {'dark': dark, 'light': light}
        for k, i in enumerate(sub):
            o = OPTS[i]
            isdark = o.endswith('_dark') or o == 'dark_module'
            if len(sub) == 1:
                kw[o] = ('black', (0, 0, 0))[i % 2] if isdark else ('white', '#FFFFFF')[i % 2]
            else:
                kw[o] = ('#00f', (0, 0, 255))[k] if isdark else ('#ff0', (255, 255, 0))[k]
    if variant == 6:
        dark, light = '#0000ff80', None
        kw = {'dark': dark, 'light': light}
        for i in sub:
            # semi-transparent, and fully transparent in its three spellings (hex, int alpha 0, float alpha 0.0)
            kw[OPTS[i]] = ('#ff000040', '#ff000000', (255, 0, 0, 0), (255, 0, 0, 0.0), (255, 0, 0, 128))[i % 5]
    if variant == 7:
        o = OPTS[sub[0]]
        pattern = sub[0] % 3
        present = {expected_option(cls[i][j], m[i][j])[0] for i in range(size) for j in range(size)} | {'quiet_zone'}
        if o not in present:
            return              # (the module type does not occur in this symbol: everything would be transparent, which is not a documented request)
        if pattern == 0:
            dark, light = None, None
            kw = {'dark': None, 'light': None, o: 'black'}
        elif pattern == 1:
            dark, light = 'black', None
            kw = {'dark': 'black', 'light': None, o: None}
        else:
            dark, light = None, 'black'
            kw = {'dark': None, 'light': 'black', o: None if o != 'quiet_zone' else 'white'}
    if variant == 8:
        dark, light = '#000', '#fff'
        kw = {OPTS[i]: OPT_COLOR[OPTS[i]] for i in sub}
        if any(not isinstance(x, str) for x in kw.values()):
            kw = {k: '#a0b0c0' for k in kw}
    if variant == 2:
        # transparent light modules + the first CSS colour as dark colour (the PNG writer's stand-in for "transparent")
        dark, light = 'aliceblue', None
        kw['dark'], kw['light'] = dark, light
    elif variant == 1:
        dark, light = 'darkblue', '#ffffe0'
        kw['dark'], kw['light'] = dark, light
    border = 1 if variant == 1 else None
    scale = 2 if variant == 1 else 1
    if border is not None:
        kw['border'] = border
    if scale != 1:
        kw['scale'] = scale
    b = (2 if T.is_micro(v) else 4) if border is None else border
    n = size + 2 * b
    out = io.BytesIO()
    try:
        if variant == 8:
            data = cli_render(qr, v, fmt, kw)
        else:
            if fmt == 'png' and variant in (0, 1):
                # history: a plain black-and-white PNG of the same geometry right before (and, below, right after) the colourful one
                qr.save(io.BytesIO(), kind='png', **{k: x for k, x in kw.items() if k in ('scale', 'border')})
            qr.save(out, kind=fmt, **kw)
            data = out.getvalue()
    except Exception as e:
        acc.eval(case, nontrivial=False, outcome='exc:' + C.exc_name(e))
        acc.violation('colour-exception/%s' % fmt, 'save(kind=%r, **%r) raised %s: %s' % (fmt, kw, C.exc_name(e), str(e)[:80]), case)
        return
    if fmt == 'png' and variant in (0, 1):
        bw = io.BytesIO()
        qr.save(bw, kind='png', **{k: x for k, x in kw.items() if k in ('scale', 'border')})
        try:
            w2, h2, px2, _ = R.read_png(bw.getvalue())
            bad2 = sum(1 for r in range(n) for c in range(n)
                       if not Co.same_px(px2[r * scale][c * scale], Co.rgba('#000' if (0 <= r - b < size and 0 <= c - b < size and m[r - b][c - b]) else '#fff')))
        except R.Malformed as e:
            bad2 = 'malformed: %s' % e
        if bad2:
            acc.violation('png-after-colourful', 'a plain PNG written right after the colourful one (%r) is wrong: %s' % (sorted(kw), bad2), case)
    # observed colour per cell
    try:
        if fmt == 'png':
            w, h, px, info = R.read_png(data)
        elif fmt == 'ppm':
            w, h, px, info = R.read_ppm(data)
        else:
            doc = V.read_svg(data)
            w = h = None
    except (R.Malformed, V.Malformed) as e:
        acc.eval(case, nontrivial=True, outcome='malformed')
        acc.violation('malformed/%s' % fmt, 'colourful %s output is malformed: %s' % (fmt, e), case)
        return
    if fmt == 'svg':
        grid, problems = V.paint_grid(doc, n)
        for p in problems[:2]:
            acc.violation('svg-geometry', p, case)
        if doc.page is None or abs(doc.page[0] - n * scale) > 1e-9:
            acc.violation('svg-size', 'page %r, expected %r' % (doc.page, n * scale), case)
    else:
        if (w, h) != (n * scale, n * scale):
            acc.eval(case, nontrivial=True, outcome='size')
            acc.violation('raster-size/%s' % fmt, 'image is %dx%d, expected %d' % (w, h, n * scale), case)
            return
    nbad = 0
    for r in range(n):
        i = r - b
        for c in range(n):
            j = c - b
            if 0 <= i < size and 0 <= j < size:
                opt, fallback = expected_option(cls[i][j], m[i][j])
                cname = cls[i][j]
            else:
                opt, fallback = 'quiet_zone', 'light'
                cname = 'quiet'
            spec = kw.get(opt, dark if fallback == 'dark' else light)
            exp = Co.rgba(spec)
            if fmt == 'svg':
                strokes = grid[r][c]
                if exp[3] == 0:
                    # nothing painted, or painted with opacity 0
                    good = not strokes or all(st[0] is None or Co.parse_svg_color(st[0], st[1])[3] == 0 for st in strokes)
                    obs = strokes
                else:
                    good = len(strokes) == 1 and strokes[0][0] is not None and Co.parse_svg_color(strokes[0][0], strokes[0][1])[:3] == exp[:3] \
                        and abs(Co.parse_svg_color(strokes[0][0], strokes[0][1])[3] - exp[3] / 255.0) <= 0.005
                    obs = strokes
                # a single-colour document with a light colour uses a background fill instead of strokes
                if not good and exp[3] != 0 and not strokes and doc.fills:
                    f = doc.fills[0]
                    good = Co.parse_svg_color(f[4], f[5])[:3] == exp[:3] and abs(f[2] - n * scale) < 1e-9 and abs(f[3] - n * scale) < 1e-9
            else:
                good = all(Co.same_px(px[r * scale + dy][c * scale + dx], exp) for dy in range(scale) for dx in range(scale))
                obs = px[r * scale][c * scale]
            if not good:
                nbad += 1
                known = None
                if not T.is_micro(v) and (i, j) == (8, size - 9) and cname == Lo.DATA:
                    fopt = 'format_dark' if m[i][j] else 'format_light'
                    fexp = Co.rgba(kw.get(fopt, dark if m[i][j] else light))
                    if fmt == 'svg':
                        if (fexp[3] == 0 and not obs) or (len(obs) == 1 and obs[0][0] is not None and Co.parse_svg_color(obs[0][0], obs[0][1])[:3] == fexp[:3]):
                            known = 'qr-row8-col-size-minus-9-typed-format'
                    elif all(Co.same_px(px[r * scale + dy][c * scale + dx], fexp) for dy in range(scale) for dx in range(scale)):
                        known = 'qr-row8-col-size-minus-9-typed-format'
                if nbad <= 3 or known:
                    acc.violation('colour/%s/%s' % (fmt, cname), '%s: cell (%d,%d) [%s] of %s painted %r, configured colour for %s is %r'
                                  % (fmt, i, j, cname, v, obs, opt, spec), case, obs=obs, exp=spec, known=known)
    acc.eval(case, nontrivial=True, outcome=(fmt, v, nbad == 0), state=(fmt, v, sub))
    acc.count('colour_files')
    acc.add('subset_sizes', (fmt, len(sub)))


def obligations(agg, tier):
    if agg.ctr.get('positions', 0) < 500000:
        yield 'verbose positions compared: %d' % agg.ctr.get('positions', 0)
    if agg.ctr.get('invalid_refused', 0) < 1:
        yield 'no invalid border/scale was refused'
    for fmt in ('png', 'svg', 'ppm'):
        for k in (0, 1, 2):
            if (fmt, k) not in agg.sets.get('subset_sizes', ()):
                yield 'no %s file with %d colour options compared' % (fmt, k)
