"""C12 - all output routes give the same document for the same symbol and options.

For symbols {M2, 1, 7-H, a Structured Append sequence} x all 13 output kinds x all option vectors with <= k options
from the kind's menu, the document is produced through every route (file name in three letter cases, stream + kind,
stream with .name, data URIs, svg_inline, .svgz, the command line tool) and compared byte for byte (timestamps
masked)."""
import base64
import contextlib
import gzip
import io
import itertools
import os
import re
import shutil
import subprocess
import sys
import tempfile
from urllib.parse import unquote_to_bytes

from . import common as C
from .common import segno
import segno.cli as cli

ID = 'C12'
LEVEL = 'exploration'
TITLE = 'All output routes give the same document for the same symbol and options'
RULE = ('symbols {M2, 1-L, 7-H, 3-symbol sequence} x 13 kinds x all subsets of size <= k of the kind\'s option menu (API keyword <-> CLI flag '
        'pairs); routes: path (lower/UPPER/MiXed extension), stream+kind (any case), stream with .name, svg/png data URI, svg_inline, '
        'gunzipped .svgz, segno.cli.main(argv) writing a file (extension in three letter cases), CLI without -o vs QRCode.terminal, sequence file names; oracle = byte '
        'equality after masking the EPS/PDF/TeX creation timestamps. non-trivial = all routes produced a document and were compared')
BOUNDS = {'quick': 'option subsets of size <= 2', 'thorough': 'option subsets of size <= 3; CLI also as a subprocess for one vector per kind'}
ASSUMPTIONS = ['svg_data_uri rewrites attribute quotes before percent-encoding; both sides pass through the same quote normaliser',
               'the CLI equivalent of an API call passes only options the serializer supports (as the CLI does)']
CHUNK = 1

TS = [(re.compile(rb'%%CreationDate: [^\n]*'), b'%%CreationDate: X'), (re.compile(rb'/CreationDate\(D:[^)]*\)'), b'/CreationDate(D:X)'),
      (re.compile(rb'% Date:     [^\n]*'), b'% Date:     X')]


def mask_ts(b):
    for rx, rep in TS:
        b = rx.sub(rep, b)
    return b


COMMON = [({'scale': 3}, ['--scale', '3']), ({'scale': 2.5}, ['-s', '2.5']), ({'border': 0}, ['--border', '0']), ({'border': 2}, ['-b', '2'])]
FLOATSCALE = [({'scale': 2.0}, None)]       # an integral float (the command line tool's converter turns "2.0" into 2: API routes only)
DARK = [({'dark': 'red'}, ['--dark', 'red']), ({'dark': '#336699'}, ['--dark=#336699'])]
LIGHT = [({'light': '#eee'}, ['--light=#eee'])]
TRANS = [({'light': None}, ['--light', 'transparent']), ({'dark': None}, ['--dark', 'trans'])]
MODCOL = [({'finder_dark': 'blue'}, ['--finder-dark', 'blue']), ({'data_light': '#ffe'}, ['--data-light=#ffe']),
          ({'alignment_dark': 'green'}, ['--align-dark', 'green']), ({'quiet_zone': 'silver'}, ['--quiet-zone', 'silver']),
          ({'separator': 'yellow'}, ['--separator', 'yellow']), ({'version_dark': 'navy'}, ['--version-dark', 'navy']),
          ({'format_light': 'tan'}, ['--format-light', 'tan']), ({'timing_dark': 'maroon'}, ['--timing-dark', 'maroon']),
          ({'dark_module': 'purple'}, ['--dark-module', 'purple'])]
SVG = [({'xmldecl': False}, ['--no-xmldecl']), ({'svgns': False}, ['--no-namespace']), ({'nl': False}, ['--no-newline']),
       ({'title': 'T <&> "q"'}, ['--title', 'T <&> "q"']), ({'desc': 'd\xe4'}, ['--desc', 'd\xe4']), ({'svgid': 'i1'}, ['--svgid', 'i1']),
       ({'svgclass': 'c1'}, ['--svgclass', 'c1']), ({'lineclass': 'l1'}, ['--lineclass', 'l1']), ({'omitsize': True}, ['--no-size']),
       ({'unit': 'mm'}, ['--unit', 'mm']), ({'svgversion': 1.1}, ['--svgversion', '1.1']), ({'svgversion': 2.0}, ['--svgversion', '2']),
       ({'svgversion': 1.0}, ['--svgversion', '1']),
       ({'encoding': 'iso-8859-1'}, ['--svgencoding', 'iso-8859-1']), ({'draw_transparent': True}, ['--draw-transparent']),
       ({'svgclass': None, 'lineclass': None}, ['--no-classes']), ({'desc': '\u20ac uro \u4e66'}, ['--desc', '\u20ac uro \u4e66']),
       # text that looks like percent-encoding (the data URI must escape the %), explicit values of the options a route defaults differently
       ({'title': 'Save 20%25 today %41 %zz 100%'}, ['--title', 'Save 20%25 today %41 %zz 100%']), ({'svgid': 'a%20b'}, ['--svgid', 'a%20b']),
       ({'nl': True}, None), ({'xmldecl': True}, None), ({'svgns': True}, None)]
MENU = {
    'svg': COMMON + DARK + LIGHT + TRANS + MODCOL[:4] + SVG + FLOATSCALE,
    'svgz': COMMON[:2] + DARK[:1] + LIGHT + SVG[:4] + [({'compresslevel': 1}, None)],
    'png': COMMON + DARK + LIGHT + TRANS + MODCOL + [({'dpi': 300}, ['--dpi', '300']), ({'compresslevel': 0}, None), ({'compresslevel': 5}, None)] + FLOATSCALE,
    'eps': COMMON + DARK + LIGHT + FLOATSCALE,
    'pdf': COMMON + DARK + LIGHT + [({'compresslevel': 0}, None)] + FLOATSCALE,
    'txt': COMMON[2:] + [({'dark': '#'}, ['--dark=#']), ({'light': '.'}, ['--light', '.']), ({'dark': 'X', 'light': 'O'}, ['--dark', 'X', '--light', 'O'])],
    'ans': COMMON[2:],
    'pbm': COMMON,
    'pam': COMMON + DARK + LIGHT + TRANS[:1],
    'ppm': COMMON + DARK + LIGHT + MODCOL[:3],
    'tex': COMMON + [({'dark': 'blue'}, ['--dark', 'blue']), ({'unit': 'mm'}, ['--unit', 'mm']), ({'dark': 'RoyalBlue'}, ['--dark', 'RoyalBlue'])] + FLOATSCALE,
    'xbm': COMMON,
    'xpm': COMMON + DARK + LIGHT + TRANS,
}
TEXT_KINDS = ('eps', 'txt', 'ans', 'tex', 'xbm', 'xpm')
SYMBOLS = {
    'M2': ('12345', ['--version', 'M2'], dict(version='M2')),
    '1L': ('HELLO', ['--error', 'L', '--no-error-boost'], dict(error='L', boost_error=False)),
    '7H': ('Structured text for version seven, level H', ['-v', '7', '-e', 'h'], dict(version=7, error='H')),
    '1M0': ('HELLO WORLD', ['--error', 'M', '--pattern', '0'], dict(error='M', mask=0)),
    'uL': ('12345', ['--micro', '-e', 'L'], dict(micro=True, error='L')),
    'enc': ('12345', ['--encoding', 'utf-8'], dict(encoding='utf-8')),
    'm3': ('12345', ['--version', 'm3'], dict(version='m3')),
    'encK': ('\u6f22\u5b57', ['--encoding', 'shift_jis', '--error', 'M'], dict(encoding='shift_jis', error='M')),
}
CORE_SYMBOLS = ('M2', '1L', '7H')
SEQ = ('ABCDEFGHIJKLMNOPQRSTUVWXYZ0123456789ABCDEFGHIJKLMNOPQRSTUVWXYZ', ['--seq', '--version', '1', '--error', 'M'], dict(version=1, error='M'))


def subsets(menu, k):
    for r in range(k + 1):
        for combo in itertools.combinations(range(len(menu)), r):
            keys = [key for i in combo for key in menu[i][0]]
            if len(keys) != len(set(keys)):
                continue
            yield combo


def gen_cases(tier):
    k = 2 if tier == 'quick' else 3
    for sym in SYMBOLS:
        for kind, menu in MENU.items():
            combos = list(subsets(menu, k if sym in CORE_SYMBOLS else 1))
            for i in range(0, len(combos), 25):
                yield ('routes', sym, kind, combos[i:i + 25])
    for kind in MENU:
        yield ('seq', kind)
    yield ('unknown',)
    for i in range(len(CLI_CONTENTS)):
        yield ('clicreate', i, 2 if tier == 'quick' else 3)
    yield ('seqone',)
    yield ('terminal',)
    yield ('sameobject',)
    if tier == 'thorough':
        for kind in MENU:
            yield ('subproc', kind)


def api_symbol(sym):
    content, argv, kw = SYMBOLS[sym]
    kw = dict(kw)
    version = kw.get('version')
    if 'micro' not in kw:
        kw['micro'] = None if isinstance(version, str) else False        # the command line tool's default is --no-micro
    return segno.make(content, **kw)


def read_file(path):
    with open(path, 'rb') as f:
        return f.read()


def stream_for(kind):
    return io.StringIO() if kind in TEXT_KINDS else io.BytesIO()


def to_bytes(kind, val):
    return val.encode('utf-8') if isinstance(val, str) else val


_quote = re.compile(br'(=)"([^"]+)"')


def norm_quotes(b):
    return _quote.sub(br"\1'\2'", b)


def routes(sym, kind, combo, acc, tmp):
    menu = MENU[kind]
    kw = {}
    flags = []
    api_only = False
    for i in combo:
        kw.update(menu[i][0])
        if menu[i][1] is None:
            api_only = True             # option that the command line tool does not expose
        else:
            flags += menu[i][1]
    case = ('routes1', sym, kind, list(combo))
    qr = api_symbol(sym)
    docs = {}
    errors = {}
    real_kind = 'svg' if kind == 'svgz' else kind
    save_kw = dict(kw)

    def attempt(name, fn):
        try:
            docs[name] = fn()
        except ValueError as e:
            errors[name] = 'ValueError'
        except SystemExit as e:
            errors[name] = 'ValueError'      # the command line tool reports a refusal as exit status
        except Exception as e:
            errors[name] = C.exc_name(e) + ':' + str(e)[:60]

    def by_path(ext):
        p = os.path.join(tmp, 'f.' + ext)
        qr.save(p, **save_kw)
        b = read_file(p)
        os.unlink(p)
        return gzip.decompress(b) if kind == 'svgz' else b

    def by_stream_kind(k):
        s = stream_for(real_kind) if kind != 'svgz' else io.BytesIO()
        if kind == 'svgz':
            # stream route for svgz: documented via file name only; kind='svg' on a stream is the uncompressed document
            qr.save(s, kind='svg', **{x: y for x, y in save_kw.items() if x != 'compresslevel'})
        else:
            qr.save(s, kind=k, **save_kw)
        return to_bytes(kind, s.getvalue())

    def by_named_stream():
        s = stream_for(real_kind)
        s.name = 'whatever.%s' % real_kind.upper()
        qr.save(s, **save_kw)
        return to_bytes(kind, s.getvalue())

    attempt('path-lower', lambda: by_path(kind))
    attempt('path-upper', lambda: by_path(kind.upper()))
    attempt('path-mixed', lambda: by_path(kind[0].upper() + kind[1:]))
    attempt('stream-kind', lambda: by_stream_kind(real_kind))
    attempt('stream-kind-upper', lambda: by_stream_kind(real_kind.upper()))
    if kind != 'svgz':
        attempt('stream-name', by_named_stream)

    def by_cli(ext=None):
        p = os.path.join(tmp, 'cli.' + (ext or kind))
        content, argv, _ = SYMBOLS[sym]
        err = io.StringIO()
        with contextlib.redirect_stderr(err):
            rc = cli.main(argv + flags + ['--output', p, content])
        if rc != 0:
            raise RuntimeError('cli rc %r' % rc)
        b = read_file(p)
        os.unlink(p)
        return gzip.decompress(b) if kind == 'svgz' else b

    def by_cli_guard(ext=None):
        try:
            return by_cli(ext)
        except SystemExit as e:
            raise ValueError('exit %r' % e.code)
    if not api_only:
        attempt('cli', by_cli_guard)
        attempt('cli-upper', lambda: by_cli_guard(kind.upper()))
        attempt('cli-mixed', lambda: by_cli_guard(kind[:-1] + kind[-1].upper()))
    if kind == 'png':
        attempt('png_data_uri', lambda: base64.b64decode(qr.png_data_uri(**kw).split('base64,', 1)[1], validate=True))
    ref_name = 'path-lower'
    ok = True
    if errors and docs:
        acc.violation('route-refused/%s' % kind, 'routes disagree on acceptance for %s %r: refused %r, produced %r' % (kind, kw, errors, sorted(docs)), case)
        ok = False
    elif errors:
        # every route refused identically (e.g. unit + omitsize): consistent
        if len({e.split(':')[0] for e in errors.values()}) != 1:
            acc.violation('route-exception/%s' % kind, 'routes raised %r for %r' % (errors, kw), case)
            ok = False
        acc.eval(case, nontrivial=False, outcome='refused', state=(sym, kind, tuple(combo)))
        return
    if ref_name not in docs:
        ref_name = sorted(docs)[0]
    ref = mask_ts(docs[ref_name])
    for name, b in docs.items():
        if mask_ts(b) != ref:
            ok = False
            d = next((i for i, (x, y) in enumerate(zip(mask_ts(b), ref)) if x != y), min(len(b), len(ref)))
            acc.violation('route-differs/%s/%s' % (kind, name), '%s via %s differs from the file written by save(path) at byte %d: %r vs %r  [%r]'
                          % (kind, name, d, mask_ts(b)[max(0, d - 20):d + 30], ref[max(0, d - 20):d + 30], kw), case)
    if kind == 'svg':
        enc = kw.get('encoding', 'utf-8')
        # svg_inline == document without xml declaration, namespace, newline
        if 'xmldecl' not in kw and 'svgns' not in kw and 'nl' not in kw:
            s = io.BytesIO()
            qr.save(s, kind='svg', xmldecl=False, svgns=False, nl=False, **kw)
            try:
                inline = qr.svg_inline(**kw)
                if inline.encode(enc) != s.getvalue():
                    ok = False
                    acc.violation('route-differs/svg/svg_inline', 'svg_inline(**%r) differs from save(xmldecl=False, svgns=False, nl=False)' % (kw,), case)
            except Exception as e:
                ok = False
                acc.violation('route-exception/svg_inline', 'svg_inline(**%r) raised %s: %s' % (kw, C.exc_name(e), str(e)[:60]), case)
        # data URI: defaults xmldecl=False, nl=False
        dkw = dict(kw)
        s = io.BytesIO()
        skw = dict(kw)
        skw.setdefault('xmldecl', False)
        skw.setdefault('nl', False)
        qr.save(s, kind='svg', **skw)
        for minimal in (False, True):
            try:
                uri = qr.svg_data_uri(encode_minimal=minimal, **dkw)
                head, _, body = uri.partition(',')
                if head != 'data:image/svg+xml;charset=' + enc:
                    ok = False
                    acc.violation('data-uri-head', 'data URI starts with %r' % head, case)
                got = unquote_to_bytes(body)
                if got != norm_quotes(s.getvalue()):
                    ok = False
                    acc.violation('route-differs/svg/svg_data_uri', 'svg_data_uri(encode_minimal=%r, **%r) decodes to a different document' % (minimal, kw), case)
            except Exception as e:
                ok = False
                acc.violation('route-exception/svg_data_uri', 'svg_data_uri(**%r) raised %s: %s' % (kw, C.exc_name(e), str(e)[:60]), case)
    acc.eval(case, nontrivial=True, outcome=(kind, ok, len(docs)), state=(sym, kind, tuple(combo)))
    acc.count('compared_documents', len(docs))
    acc.add('routes', tuple(sorted(docs)))
    acc.sample({'symbol': sym, 'kind': kind, 'kw': kw, 'cli_flags': flags, 'routes': sorted(docs)})


TWINS = [{'scale': 2}, {'scale': 2.0}, {'scale': 2}, {'svgversion': 1.0}, {'svgversion': 1}, {'border': 1}, {'border': True}, {'scale': 3, 'border': 0},
         {'scale': 3.0, 'border': 0}, {'dark': '#000'}, {'dark': 'black'}, {'scale': 2, 'dark': (0, 0, 0)}, {'scale': 2.0, 'dark': (0.0, 0.0, 0.0) if False else (0, 0, 0)}]


def sameobject_case(acc):
    """One QRCode object, a sequence of calls whose keyword values compare equal but are not the same (2 / 2.0, 1 / 1.0 / True): every
    result must equal the result of the same call on a fresh object (no per-object memo keyed by ==)."""
    for sym in CORE_SYMBOLS:
        shared = api_symbol(sym)
        for order in (TWINS, list(reversed(TWINS))):
            for kw in order:
                for name, fn in (('svg_inline', lambda q: q.svg_inline(**kw)), ('svg_data_uri', lambda q: q.svg_data_uri(**kw)),
                                 ('png_data_uri', lambda q: q.png_data_uri(**{k: v for k, v in kw.items() if k != 'svgversion'})),
                                 ('save-svg', lambda q: _to_stream(q, 'svg', kw)), ('save-eps', lambda q: _to_stream(q, 'eps', {k: v for k, v in kw.items() if k != 'svgversion'}))):
                    try:
                        a = fn(shared)
                    except Exception as e:
                        a = 'exc:' + C.exc_name(e)
                    try:
                        b = fn(api_symbol(sym))
                    except Exception as e:
                        b = 'exc:' + C.exc_name(e)
                    if isinstance(a, bytes):
                        a, b = mask_ts(a), mask_ts(b)
                    acc.eval(('sameobj', sym, name, repr(kw)), nontrivial=True, outcome=(a == b), state=('sameobj', sym, name))
                    acc.count('sameobject_calls')
                    if a != b:
                        acc.violation('same-object/%s' % name, '%s(**%r) on a QRCode object that served other calls before differs from the same call on a fresh object'
                                      % (name, kw), ('sameobject',))


def _to_stream(q, kind, kw):
    s = stream_for(kind)
    q.save(s, kind=kind, **kw)
    return to_bytes(kind, s.getvalue())


def seq_case(kind, acc, tmp):
    seq_case_1(kind, acc, tmp, SEQ)
    if kind in ('txt', 'png'):
        content, argv, kw = SEQ
        seq_case_1(kind, acc, tmp, (content, argv + ['--pattern', '2'], dict(kw, mask=2)))
        seq_case_1(kind, acc, tmp, (content, argv + ['--pattern', '0', '--no-error-boost'], dict(kw, mask=0, boost_error=False)))


def seq_case_1(kind, acc, tmp, SEQ):
    content, argv, kw = SEQ
    seq = segno.make_sequence(content, **kw)
    n = len(seq)
    case = ('seq', kind)
    real = 'svg' if kind == 'svgz' else kind
    variants = [({}, []), ({'scale': 2, 'border': 1}, ['--scale', '2', '--border', '1'])]
    if kind in ('txt', 'ans'):
        variants[1] = ({'border': 1}, ['--border', '1'])
    variants.append(({}, []))
    variants.append(({}, []))
    for vi, (opts, flags) in enumerate(variants):
        # (file names with characters that mean something to str.format / % formatting)
        base = ('name', 'na.me.v2', '100% {0} %d', 'a%20b{}')[vi]
        d = tempfile.mkdtemp(dir=tmp, suffix='.d' if opts else '')
        try:
            seq.save(os.path.join(d, base + '.' + kind), **opts)
        except Exception as e:
            acc.eval(('seq', kind, vi), nontrivial=True, outcome='exc', state=('seq', kind, vi))
            acc.violation('sequence-file-names', 'sequence saved to %r raised %s: %s' % (base + '.' + kind, C.exc_name(e), str(e)[:60]), case)
            continue
        names = sorted(os.listdir(d))
        want = ['%s-%02d-%02d.%s' % (base, n, i, kind) for i in range(1, n + 1)]
        acc.eval(('seq', kind, vi), nontrivial=True, outcome=(names == want), state=('seq', kind, vi))
        if names != want or n < 2:
            acc.violation('sequence-file-names', 'sequence of %d symbols saved to %s.%s wrote %r, expected %r' % (n, base, kind, names, want), case)
            continue
        for i, qr in enumerate(seq, start=1):
            s = stream_for(real)
            qr.save(s, kind=real, **opts)
            b = read_file(os.path.join(d, want[i - 1]))
            if kind == 'svgz':
                b = gzip.decompress(b)
            if mask_ts(b) != mask_ts(to_bytes(kind, s.getvalue())):
                acc.violation('sequence-content/%s' % kind, 'file %s differs from the output of symbol %d' % (want[i - 1], i), case)
        # the command line tool
        d2 = tempfile.mkdtemp(dir=tmp)
        try:
            rc = cli.main(argv + flags + ['-o', os.path.join(d2, base + '.' + kind), content])
        except SystemExit as e:
            rc = e.code
        names2 = sorted(os.listdir(d2))
        if rc != 0 or names2 != want:
            acc.violation('sequence-cli', 'CLI --seq wrote %r (status %r), expected %r' % (names2, rc, want), case)
        else:
            for nm in want:
                if mask_ts(read_file(os.path.join(d2, nm))) != mask_ts(read_file(os.path.join(d, nm))) and kind != 'svgz':
                    acc.violation('sequence-cli-content/%s' % kind, 'CLI file %s differs from QRCodeSequence.save' % nm, case)
        acc.count('sequence_files', len(want))


def unknown_case(acc, tmp):
    qr = api_symbol('1L')
    seq = segno.make_sequence(SEQ[0], **SEQ[2])
    for target, desc in ((os.path.join(tmp, 'x.xyz'), 'path .xyz'), (os.path.join(tmp, 'noext'), 'path without extension'),
                         (os.path.join(tmp, 'x.svg.bak'), 'path .bak'), (os.path.join(tmp, 'x.pngx'), 'path .pngx'),
                         (os.path.join(tmp, 'x.text'), 'path .text'), (os.path.join(tmp, 'x.svgzz'), 'path .svgzz'), (os.path.join(tmp, 'x.pd'), 'path .pd'),
                         (os.path.join(tmp, 'x.epsf'), 'path .epsf')):
        for obj, what in ((qr, 'QRCode'), (seq, 'QRCodeSequence')):
            case = ('unknown',)
            try:
                obj.save(target)
                acc.eval(('unknown', desc, what), nontrivial=True, outcome='accepted')
                acc.violation('unknown-extension-accepted', '%s.save(%s) wrote a file instead of raising ValueError' % (what, desc), case)
            except ValueError:
                acc.eval(('unknown', desc, what), nontrivial=True, outcome='ValueError')
                acc.count('unknown_refused')
            except Exception as e:
                acc.eval(('unknown', desc, what), nontrivial=True, outcome=C.exc_name(e))
                acc.violation('unknown-extension-exception', '%s.save(%s) raised %s instead of ValueError' % (what, desc, C.exc_name(e)), case)
    for k in ('xyz', '', 'svgx', 'pngx', 'pdfa', 'tx', 'svgzz'):
        try:
            qr.save(io.BytesIO(), kind=k)
            acc.violation('unknown-kind-accepted', 'save(stream, kind=%r) accepted' % k, ('unknown',))
        except ValueError:
            acc.count('unknown_refused')
        except Exception as e:
            acc.violation('unknown-extension-exception', 'save(stream, kind=%r) raised %s' % (k, C.exc_name(e)), ('unknown',))
        acc.eval(('unknown-kind', k), nontrivial=True, outcome='x')


def terminal_case(acc):
    for sym in SYMBOLS:
        content, argv, _ = SYMBOLS[sym]
        qr = api_symbol(sym)
        for border, bflags in ((None, []), (0, ['--border', '0']), (1, ['-b', '1'])):
            for compact in (False, True):
                case = ('terminal',)
                out = io.StringIO()
                with contextlib.redirect_stdout(out):
                    try:
                        rc = cli.main(argv + bflags + (['--compact'] if compact else []) + [content])
                    except SystemExit as e:
                        rc = e.code
                ref = io.StringIO()
                qr.terminal(out=ref, border=border, compact=compact)
                ref2 = io.StringIO()
                with contextlib.redirect_stdout(ref2):
                    qr.terminal(border=border, compact=compact)
                ok = rc == 0 and out.getvalue() == ref.getvalue() == ref2.getvalue()
                acc.eval(('terminal', sym, border, compact), nontrivial=True, outcome=ok, state=('terminal', sym, border, compact))
                acc.count('terminal_compared')
                if not ok:
                    acc.violation('cli-terminal', 'CLI without -o (border=%r, compact=%r, status %r) does not print what QRCode.terminal prints'
                                  % (border, compact, rc), case)


def seq_terminal_case(acc):
    """--seq without an output file prints what the symbols' terminal() print, one after the other (also through QRCodeSequence.terminal)"""
    for content, argv, kw in (SEQ, ('HELLO', ['--seq', '--symbol-count', '1'], dict(symbol_count=1)), ('0123456789' * 9, ['--seq', '-sc', '3', '-e', 'H'], dict(symbol_count=3, error='H'))):
        seq = segno.make_sequence(content, **kw)
        for border, bflags in ((None, []), (0, ['--border', '0']), (2, ['-b', '2'])):
            for compact in (False, True):
                out = io.StringIO()
                with contextlib.redirect_stdout(out):
                    try:
                        rc = cli.main(argv + bflags + (['--compact'] if compact else []) + [content])
                    except SystemExit as e:
                        rc = e.code
                ref = io.StringIO()
                for qr in seq:
                    qr.terminal(out=ref, border=border, compact=compact)
                via_seq = io.StringIO()
                seq.terminal(out=via_seq, border=border, compact=compact)
                ok = rc == 0 and out.getvalue() == ref.getvalue() == via_seq.getvalue()
                acc.eval(('seqterminal', len(seq), border, compact), nontrivial=True, outcome=ok, state=('seqterminal', len(seq), border, compact))
                acc.count('terminal_compared')
                if not ok:
                    acc.violation('cli-terminal/seq', '%d-symbol sequence: CLI --seq without -o (border=%r, compact=%r, status %r) / QRCodeSequence.terminal '
                                  'do not print what the symbols\' QRCode.terminal print' % (len(seq), border, compact, rc), ('terminal',))


# symbol creation flags of the command line tool and the keyword arguments they stand for (docs/command-line.rst)
CLI_CONTENTS = ['12345', 'HELLO WORLD', 'hello', '\u70b9\u8317', 'A1b2 c3', 'ABCDEFGHIJKLMNOPQRSTUVWXYZ0123456789ABCDEFGHIJKLMNOPQRSTUVWXYZ']
CLI_CREATE = [
    ('version', [(['--version', '1'], 1), (['-v', '5'], 5), (['--version', 'M3'], 'M3'), (['--version', 'm4'], 'm4'), (['--version=10'], 10)]),
    ('error', [(['--error', 'L'], 'L'), (['-e', 'm'], 'm'), (['--error=Q'], 'Q'), (['--error', 'H'], 'H'), (['--error', '-'], None)]),
    ('mode', [(['--mode', 'numeric'], 'numeric'), (['--mode', 'alphanumeric'], 'alphanumeric'), (['-m', 'byte'], 'byte'), (['--mode', 'kanji'], 'kanji'),
              (['--mode', 'hanzi'], 'hanzi'), (['--mode', 'BYTE'], 'byte')]),
    ('mask', [(['--pattern', '0'], 0), (['-p', '3'], 3), (['--pattern', '7'], 7)]),
    ('micro', [(['--micro'], True), (['--no-micro'], False)]),
    ('boost_error', [(['--no-error-boost'], False)]),
    ('encoding', [(['--encoding', 'utf-8'], 'utf-8'), (['--encoding', 'latin1'], 'latin1'), (['--encoding', 'shift_jis'], 'shift_jis')]),
    ('seq', [(['--seq', '--symbol-count', '2'], {'symbol_count': 2}), (['--seq', '-sc', '1'], {'symbol_count': 1}), (['--seq'], {})]),
]


def clicreate_case(ci, k, acc):
    """cli.parse + cli.make_code (the two steps cli.main performs) against make / make_sequence with the keyword arguments the flags stand for"""
    content = CLI_CONTENTS[ci]
    names = [n for n, _ in CLI_CREATE]
    for r in range(k + 1):
        for idxs in itertools.combinations(range(len(CLI_CREATE)), r):
            for vals in itertools.product(*[CLI_CREATE[i][1] for i in idxs]):
                argv, kw, seq = [], {}, None
                for i, (flags, val) in zip(idxs, vals):
                    argv += flags
                    if names[i] == 'seq':
                        seq = val
                    else:
                        kw[names[i]] = val
                case = ('clicreate1', ci, argv)
                # the tool's default is "no Micro QR" unless a Micro version is asked for or --micro is given
                if seq is None and 'micro' not in kw:
                    kw['micro'] = None if str(kw.get('version', '')).upper().startswith('M') else False
                elif seq is None and kw['micro'] is False and str(kw.get('version', '')).upper().startswith('M'):
                    kw['micro'] = None
                if seq is not None:
                    kw.pop('micro', None)          # (make_sequence has no such argument; the tool ignores the flags for --seq)
                    kw.update(seq)

                def api():
                    return segno.make_sequence(content, **kw) if seq is not None else segno.make(content, **kw)

                def tool():
                    with contextlib.redirect_stdout(io.StringIO()), contextlib.redirect_stderr(io.StringIO()):
                        cfg = cli.parse(argv + ['--', content])
                    return cli.make_code(cfg)
                res = []
                for fn in (api, tool):
                    try:
                        x = fn()
                        syms = list(x) if isinstance(x, segno.QRCodeSequence) else [x]
                        res.append(tuple((q.designator, q.mask, q.mode, tuple(bytes(r_) for r_ in q.matrix)) for q in syms))
                    except ValueError as e:
                        res.append('ValueError')
                    except SystemExit as e:
                        res.append('ValueError')
                    except Exception as e:
                        res.append('exc:' + C.exc_name(e))
                acc.eval(case, nontrivial=not isinstance(res[0], str), outcome=(res[0] == res[1]), state=('clicreate', tuple(names[i] for i in idxs)))
                acc.count('cli_created')
                if res[0] != res[1]:
                    def show(x):
                        return x if isinstance(x, str) else [t[:3] for t in x]
                    acc.violation('cli-symbol', 'segno %s %r creates %r, the library call with %r creates %r' % (' '.join(argv), content[:20], show(res[1]), kw, show(res[0])), case)


def seqone_case(acc):
    """a sequence of one symbol offers the symbol's own methods: every route must give the symbol's document"""
    seq = segno.make_sequence('HELLO', symbol_count=1, error='M', mask=2)
    qr = seq[0]
    probes = [('svg_data_uri', {}), ('svg_data_uri', {'scale': 2, 'dark': 'red'}), ('png_data_uri', {'scale': 3}), ('svg_inline', {'border': 1})]
    for name, kw in probes:
        try:
            a, b = getattr(seq, name)(**kw), getattr(qr, name)(**kw)
        except Exception as e:
            a, b = 'exc:' + C.exc_name(e), None
        acc.eval(('seqone', name, tuple(kw)), nontrivial=True, outcome=(a == b), state=('seqone', name))
        if a != b:
            acc.violation('sequence-delegation/' + name, 'QRCodeSequence(1 symbol).%s(**%r) differs from the symbol\'s own %s' % (name, kw, name), ('seqone',))
    for attr in ('version', 'error', 'mask', 'mode', 'designator', 'is_micro', 'matrix', 'default_border_size'):
        try:
            a, b = getattr(seq, attr), getattr(qr, attr)
        except Exception as e:
            a, b = 'exc:' + C.exc_name(e), None
        if a != b:
            acc.violation('sequence-delegation/' + attr, 'QRCodeSequence(1 symbol).%s = %r, the symbol reports %r' % (attr, a, b), ('seqone',))
    for kind in ('png', 'svg', 'txt', 'eps'):
        s1, s2 = stream_for(kind), stream_for(kind)
        opts = {} if kind == 'txt' else {'scale': 2}
        seq.save(s1, kind=kind, **opts)
        qr.save(s2, kind=kind, **opts)
        same = mask_ts(to_bytes(kind, s1.getvalue())) == mask_ts(to_bytes(kind, s2.getvalue()))
        acc.eval(('seqone', 'save', kind), nontrivial=True, outcome=same, state=('seqone', 'save', kind))
        if not same:
            acc.violation('sequence-delegation/save', 'QRCodeSequence(1 symbol).save(stream, kind=%r) differs from the symbol\'s save' % kind, ('seqone',))


def subproc_case(kind, acc, tmp):
    content, argv, _ = SYMBOLS['7H']
    menu = MENU[kind]
    kw, flags = dict(menu[0][0]), list(menu[0][1])
    p = os.path.join(tmp, 'sp.' + kind)
    env = dict(os.environ, PYTHONPATH=os.environ['VERIF_REPO'])
    r = subprocess.run([sys.executable, '-m', 'segno.cli'] + argv + flags + ['-o', p, content], capture_output=True, env=env, timeout=120)
    qr = api_symbol('7H')
    p2 = os.path.join(tmp, 'api.' + kind)
    qr.save(p2, **kw)
    ok = r.returncode == 0 and os.path.exists(p) and mask_ts(read_file(p) if kind != 'svgz' else gzip.decompress(read_file(p))) == \
        mask_ts(read_file(p2) if kind != 'svgz' else gzip.decompress(read_file(p2)))
    acc.eval(('subproc', kind), nontrivial=True, outcome=ok, state=('subproc', kind))
    if not ok:
        acc.violation('cli-subprocess/%s' % kind, 'python -m segno.cli ... -o x.%s (status %d, stderr %r) differs from save()' % (kind, r.returncode, r.stderr[:100]),
                      ('subproc', kind))


def run_case(case, acc):
    tmp = tempfile.mkdtemp(prefix='verif-c12-')
    try:
        kind = case[0]
        if kind == 'routes':
            for combo in case[3]:
                routes(case[1], case[2], tuple(combo), acc, tmp)
        elif kind == 'routes1':
            routes(case[1], case[2], tuple(case[3]), acc, tmp)
        elif kind == 'seq':
            seq_case(case[1], acc, tmp)
        elif kind == 'unknown':
            unknown_case(acc, tmp)
        elif kind == 'clicreate':
            clicreate_case(case[1], case[2], acc)
        elif kind == 'clicreate1':
            clicreate_case(case[1], 3, acc)
        elif kind == 'seqone':
            seqone_case(acc)
        elif kind == 'terminal':
            terminal_case(acc)
            seq_terminal_case(acc)
        elif kind == 'sameobject':
            sameobject_case(acc)
        elif kind == 'subproc':
            subproc_case(case[1], acc, tmp)
        else:
            raise ValueError(kind)
    finally:
        shutil.rmtree(tmp, ignore_errors=True)


def obligations(agg, tier):
    if agg.ctr.get('compared_documents', 0) < 5000:
        yield 'documents compared: %d' % agg.ctr.get('compared_documents', 0)
    if agg.ctr.get('unknown_refused', 0) < 5:
        yield 'unknown extensions refused: %d' % agg.ctr.get('unknown_refused', 0)
    if agg.ctr.get('terminal_compared', 0) < 18:
        yield 'terminal comparisons: %d' % agg.ctr.get('terminal_compared', 0)
    if agg.ctr.get('sequence_files', 0) < 26:
        yield 'sequence files compared: %d' % agg.ctr.get('sequence_files', 0)
    if not any('cli' in r for r in agg.sets.get('routes', ())):
        yield 'the CLI route never produced a document'
