"""C13 - terminator, bit padding, pad codewords, remainder bits (ISO 7.4.9 / 7.4.10).

Model: qrref.stream.data_stream (segments + terminator + padding).  For every (version, level) the contents are chosen
so that the terminated stream length hits every residue modulo 8 and every distance to capacity 0..12 bits that the
mode's step sizes allow; the complete data bit stream recovered by the reference reader is compared with the model."""
from qrref import tables as T, stream as S, model as Mo
from . import common as C
from .common import segno

ID = 'C13'
LEVEL = 'model_checking'
TITLE = 'Data bit stream is terminated and padded as ISO 7.4.9/7.4.10 require'
RULE = ('for every (version, level) x mode in {numeric, alphanumeric, byte, kanji} x lengths {0..12} + {max-14..max} the symbol is built '
        '(fixed mask; boost off, and boost on where it raises the level) and the complete data bit stream read back is compared bit by bit with the reference stream model; '
        'state = (version, level, residue of terminated length mod 8, distance to capacity capped at 13); non-trivial = symbol returned')
BOUNDS = {'quick': 'Micro + versions 1-10, 26, 27, 40', 'thorough': 'all 44 versions, two data variants, plus multi-part and Structured Append symbols'}
ASSUMPTIONS = ['qrref stream model (reproduces ISO Annex I examples bit for bit in the self-test)']
KNOWN = {'padbits-aligned-extra-zero-codeword':
         'QR/M2/M4: the terminated stream ends on a codeword boundary with >= 8 bits of capacity left, and the data codewords '
         'equal the reference stream with exactly one 00000000 codeword inserted at that boundary'}
CHUNK = 1

MODES = ('numeric', 'alphanumeric', 'byte', 'kanji')


def gen_cases(tier):
    vers = T.ORDER if tier == 'thorough' else T.MICRO + tuple(range(1, 11)) + (26, 27, 40)
    for v in vers:
        for lvl in T.levels_of(v):
            for mode in MODES:
                if T.mode_supported(mode, v):
                    yield ('cell', v, lvl, mode, 2 if tier == 'thorough' else 1)
    for v in vers:
        if not T.is_micro(v):
            for lvl in T.levels_of(v):
                yield ('dist', v, lvl)
    for v in (1, 2, 3):
        for lvl in ('L', 'M', 'H'):
            yield ('multimode', v, lvl)
    if tier == 'thorough':
        for v in (1, 2, 9, 10, 26, 27):
            for lvl in ('L', 'H'):
                yield ('multi', v, lvl)
    # symbols that reach the stream writer through other routes: Structured Append symbols (symbol_count), several segments with a
    # requested version, ECI headers with every spelling of the encoding - judged against the segments a reader finds in them
    for k in (1, 2, 3, 4):
        for lvl in ('L', 'M', 'Q', 'H'):
            for mode in ('byte', 'numeric', 'alphanumeric'):
                yield ('seqs', k, lvl, mode)
    for v in ('M2', 'M3', 'M4', 1, 2):
        yield ('reqseg', v)
    for enc in ('iso-8859-1', 'ISO-8859-1', 'latin1', 'utf-8', 'UTF8', 'iso-8859-15'):
        yield ('ecialias', enc)


def lengths(mode, v, lvl):
    mx = C.max_count(mode, v, lvl)
    if mx < 0:
        return []
    ls = set(range(0, 13)) | set(range(max(0, mx - 14), mx + 3))        # mx+1, mx+2: must be refused, never padded/cut
    return sorted(n for n in ls if n <= mx + 2)


def judge(qr, parts, v, lvl, acc, case, sa=None):
    rep = C.read(qr, parse=False)
    exp = S.data_stream(parts, v, lvl, sa)
    cap = T.data_bits(v, lvl)
    used = len(exp) - len(S.tail(v, lvl, 0)) if False else None
    # used bits = header + payload
    ub = (20 if sa else 0) + sum(len(S.segment_bits(m, d, v, e)) for m, d, e in parts)
    t = min(cap - ub, T.terminator_bits(v))
    state = (v, lvl, (ub + t) % 8, min(cap - ub, 13))
    acc.eval(case, nontrivial=True, outcome=(state, tuple(rep.data_bits[ub:ub + 24]) if rep.data_bits else None), state=state)
    acc.add('grid', state)
    acc.sample({'case': case, 'used_bits': ub, 'capacity': cap, 'tail': ''.join(map(str, (rep.data_bits or [])[ub:ub + 40]))})
    if (rep.version, rep.level) != (v, lvl) or rep.data_bits is None:
        acc.violation('unreadable', 'symbol is not a readable %s-%s symbol: %s' % (v, lvl, rep.problems[:2]), case)
        return
    for p in rep.problems:
        if 'remainder' in p:
            acc.violation('remainder-bits', p, case)
    got = rep.data_bits
    if got == exp:
        acc.count('conforming')
        return
    if got[:ub] != exp[:ub]:
        acc.violation('segments', 'segment bits differ from the model at bit %d' % next(i for i in range(ub) if got[i] != exp[i]), case,
                      obs=''.join(map(str, got[:64])), exp=''.join(map(str, exp[:64])))
        return
    known = None
    room = cap - (ub + t)
    if not T.has_half_codeword(v) and (ub + t) % 8 == 0 and room >= 8:
        etail = exp[ub:]
        alt = [0] * t + [0] * 8 + etail[t:][:room - 8]
        if got[ub:] == alt:
            known = 'padbits-aligned-extra-zero-codeword'
    fam = 'padding/%s' % ('half-codeword-version' if T.has_half_codeword(v) else ('aligned' if (ub + t) % 8 == 0 else 'unaligned'))
    acc.violation(fam, 'bits after the last segment of %s-%s (used %d of %d bits): got %s..., ISO prescribes %s...'
                  % (v, lvl, ub, cap, ''.join(map(str, got[ub:ub + 40])), ''.join(map(str, exp[ub:ub + 40]))), case,
                  obs=''.join(map(str, got[ub:])), exp=''.join(map(str, exp[ub:])), known=known)


def judge_as_read(qr, acc, case):
    """terminator and padding relative to the segments an ISO reader finds in the symbol (the symbol may come from any route)"""
    rep = C.read(qr)
    bad = [p for p in rep.problems if C.classify_problem(p) == 'stream']
    if bad or rep.segments is None:
        acc.eval(case, nontrivial=True, outcome='garbled', state=('as-read', 'garbled'))
        acc.violation('stream-not-terminated', '%s symbol: %s - the data does not end in a complete segment followed by terminator and padding'
                      % (qr.designator, (bad or rep.problems or ['no segments'])[0][:120]), case)
        return
    parts = [(sg.mode, sg.data, sg.eci) for sg in rep.segments]
    acc.count('as_read')
    judge(qr, parts, rep.version, rep.level, acc, case, sa=rep.sa)


def seqs(k, lvl, mode, acc):
    top = {'byte': 40, 'numeric': 90, 'alphanumeric': 60}[mode] * k
    for n in range(k, top + 1):
        content = C.content_of(mode, n, 0)
        for boost in (False, True):
            try:
                seq = segno.make_sequence(content, symbol_count=k, error=lvl, boost_error=boost, mode=mode)
            except C.REFUSALS:
                continue
            for i, qr in enumerate(seq):
                judge_as_read(qr, acc, ('seq1', k, lvl, mode, n, boost, i))


def reqseg(v, acc):
    pieces = ['1', 'A', '22', 'BC', '333', 'D', '4', 'EF', '55', 'G', '666', 'HI'] + (['a', '7', 'bc', 'K'] if T.mode_supported('byte', v) else [])
    # adjacent parts of the same mode (the encoder may merge them into one segment): the sizes must count the merged-in part
    if T.mode_supported('alphanumeric', v):
        for lvl in T.levels_of(v):
            mx = C.max_count('alphanumeric', v, lvl)
            for first in (2, 4, max(2, mx - 4) // 2 * 2):
                for second in (1, 2, 3, max(1, mx - first - 1), max(1, mx - first), mx - first + 1, mx - first + 2):
                    if second < 1:
                        continue
                    text = C.content_of('alphanumeric', first + second, 0)
                    for content in ([text[:first], text[first:]], ['12', text[:first], text[first:]]):
                        for kw in ({'error': lvl, 'micro': None if T.is_micro(v) else False}, {'error': lvl, 'version': v}):
                            kw = {k: x for k, x in kw.items() if x is not None or k == 'micro'}
                            if lvl is None:
                                kw.pop('error', None)
                            try:
                                qr = segno.make(content, **kw)
                            except C.REFUSALS:
                                continue
                            judge_as_read(qr, acc, ('reqseg1', v, lvl, first, second, sorted(kw)))
    for lvl in T.levels_of(v):
        for k in range(1, len(pieces) + 1):
            for start in (0, 1):
                content = pieces[start:start + k]
                if not content:
                    continue
                for kw in ({'version': v}, {'version': v, 'boost_error': False}, {'micro': None}):
                    kw = dict(kw)
                    if lvl is not None:
                        kw['error'] = lvl
                    try:
                        qr = segno.make(content, **kw)
                    except C.REFUSALS:
                        continue
                    judge_as_read(qr, acc, ('reqseg1', v, lvl, k, start, sorted(kw)))


def ecialias(enc, acc):
    for v in (1, 2, 3):
        for lvl in ('L', 'M', 'Q', 'H'):
            mx = C.max_count('byte', v, lvl)
            for n in range(max(1, mx - 3), mx + 2):
                content = C.content_of('byte', n, 1).replace('\xe9', 'e')
                for kw in ({'error': lvl}, {'error': lvl, 'boost_error': False}, {'error': lvl, 'version': v}, {}):
                    try:
                        qr = segno.make(content, encoding=enc, eci=True, **kw)
                    except C.REFUSALS:
                        continue
                    judge_as_read(qr, acc, ('ecialias1', enc, v, lvl, n, sorted(kw)))


def one(v, lvl, mode, n, variant, acc):
    case = ('one', v, lvl, mode, n, variant)
    content = C.content_of(mode, n, variant)
    data = content.encode('shift_jis' if mode == 'kanji' else 'latin-1')
    kw = dict(version=v, error=lvl, mode=mode, boost_error=False, mask=(n + variant) % 4)
    try:
        qr = segno.make(content if n else (b'' if mode == 'byte' else content), **kw)
    except C.REFUSALS as e:
        acc.eval(case, nontrivial=False, outcome='refused')
        acc.count('refused')
        if n > C.max_count(mode, v, lvl):
            return
        if n > 0:
            acc.violation('refused-fitting', 'content of %d %s characters fits %s-%s but was refused: %s' % (n, mode, v, lvl, str(e)[:60]), case)
        return
    if n > C.max_count(mode, v, lvl):
        acc.eval(case, nontrivial=True, outcome='accepted-overflow', state=(v, lvl, 'overflow'))
        acc.violation('overflow-accepted', '%d %s characters do not fit %s-%s but a symbol was returned: the last segment cannot be complete and terminated'
                      % (n, mode, v, lvl), case)
        return
    judge(qr, [(mode, data, None)], v, lvl, acc, case)
    # the same content with error-level boosting (the default): padding must follow the level actually used
    if lvl is not None and lvl != T.levels_of(v)[-1]:
        kw2 = dict(version=v, error=lvl, mode=mode, mask=(n + variant) % 4)
        try:
            q2 = segno.make(content if n else (b'' if mode == 'byte' else content), **kw2)
        except C.REFUSALS:
            return
        if q2.error != lvl and q2.version == v:
            acc.count('boosted')
            judge(q2, [(mode, data, None)], v, q2.error, acc, ('boost', v, lvl, mode, n, variant))


def run_case(case, acc):
    kind = case[0]
    if kind == 'cell':
        _, v, lvl, mode, nvar = case
        for n in lengths(mode, v, lvl):
            if n == 0 and mode != 'byte':
                continue
            for variant in range(nvar):
                one(v, lvl, mode, n, variant, acc)
    elif kind in ('one', 'boost'):
        one(*case[1:], acc)
    elif kind == 'multi':
        _, v, lvl = case
        for k in range(1, 9):
            multi(v, lvl, k, acc)
    elif kind == 'dist':
        _, v, lvl = case
        for d in range(13):
            dist(v, lvl, d, acc)
    elif kind == 'dist1':
        dist(case[1], case[2], case[3], acc)
    elif kind == 'multimode':
        _, v, lvl = case
        for pair in (('hanzi', '\u4e66', 'gb2312', 13), ('kanji', '\u70b9', 'shift_jis', 8)):
            for k1 in (1, 2, 4):
                for k2 in (1, 3, 4):
                    for mid in ('7', '77', 'A'):
                        multimode(v, lvl, pair, k1, mid, k2, acc)
    elif kind == 'multimode1':
        multimode(case[1], case[2], tuple(case[3]), case[4], case[5], case[6], acc)
    elif kind == 'seqs':
        seqs(case[1], case[2], case[3], acc)
    elif kind == 'reqseg':
        reqseg(case[1], acc)
    elif kind == 'ecialias':
        ecialias(case[1], acc)
    elif kind in ('seq1', 'reqseg1', 'ecialias1'):
        # replay: the whole family member is cheap
        {'seq1': lambda: seqs(case[1], case[2], case[3], acc), 'reqseg1': lambda: reqseg(case[1], acc), 'ecialias1': lambda: ecialias(case[1], acc)}[kind]()
    elif kind == 'multi1':
        multi(case[1], case[2], case[3], acc)
    else:
        raise ValueError(kind)


def solve(v, lvl, d):
    """(f, mode2, k): f filler bytes + k characters of mode2 leave exactly d bits of capacity, or None"""
    cap = T.data_bits(v, lvl)
    hb = 4 + T.cci_bits('byte', v)
    for k in range(1, 25):
        for mode2 in ('numeric', 'alphanumeric'):
            rem = cap - d - hb - 4 - T.cci_bits(mode2, v) - T.payload_bits(mode2, k)
            if rem >= 8 and rem % 8 == 0 and rem // 8 < (1 << T.cci_bits('byte', v)):
                return rem // 8, mode2, k
    return None


def dist(v, lvl, d, acc):
    """byte part + numeric/alphanumeric part sized so that exactly d bits of capacity remain"""
    case = ('dist1', v, lvl, d)
    sol = solve(v, lvl, d)
    if sol is None:
        acc.count('distance_unreachable')
        return
    f, mode2, k = sol
    cap = T.data_bits(v, lvl)
    second = C.content_of(mode2, k, d)
    content = [b'a' * f, (second, C.INT_OF_MODE[mode2])]
    parts = [('byte', b'a' * f, None), (mode2, second.encode(), None)]
    try:
        qr = segno.make(content, version=v, error=lvl, boost_error=False, mask=d % 8)
    except C.REFUSALS as e:
        acc.eval(case, nontrivial=False, outcome='refused')
        acc.violation('refused-fitting', 'two-part content needing %d of %d bits was refused: %s' % (cap - d, cap, str(e)[:60]), case)
        return
    judge(qr, parts, v, lvl, acc, case)


def multimode(v, lvl, pair, k1, mid, k2, acc):
    """<k1 double-byte chars> <digits / letter> <k2 double-byte chars>: two segments of a mode with extra header bits in one symbol"""
    mode, ch, enc, const = pair
    case = ('multimode1', v, lvl, list(pair), k1, mid, k2)
    midmode = 'numeric' if mid.isdigit() else 'alphanumeric'
    content = [(ch * k1, const), mid, (ch * k2, const)]
    parts = [(mode, (ch * k1).encode(enc), None), (midmode, mid.encode(), None), (mode, (ch * k2).encode(enc), None)]
    if S.data_stream(parts, v, lvl) is None:
        # must not be accepted into this version
        try:
            segno.make(content, version=v, error=lvl, boost_error=False, mask=1)
        except C.REFUSALS:
            acc.eval(case, nontrivial=True, outcome='refused-overflow')
            return
        acc.eval(case, nontrivial=True, outcome='accepted-overflow')
        acc.violation('overflow-accepted', 'three segments that need more than the capacity of %s-%s were accepted' % (v, lvl), case)
        return
    try:
        qr = segno.make(content, version=v, error=lvl, boost_error=False, mask=1)
    except C.REFUSALS as e:
        acc.eval(case, nontrivial=False, outcome='refused')
        acc.violation('refused-fitting', 'three segments that fit %s-%s were refused: %s' % (v, lvl, str(e)[:60]), case)
        return
    judge(qr, parts, v, lvl, acc, case)


def multi(v, lvl, k, acc):
    """alternating numeric / byte parts: residues the single-mode families cannot reach"""
    case = ('multi1', v, lvl, k)
    content = []
    parts = []
    for i in range(k):
        if i % 2 == 0:
            content.append('7' * (i + 1))
            parts.append(('numeric', b'7' * (i + 1), None))
        else:
            content.append('a' * i)
            parts.append(('byte', b'a' * i, None))
    try:
        qr = segno.make(content, version=v, error=lvl, boost_error=False, mask=k % 8)
    except C.REFUSALS:
        acc.eval(case, nontrivial=False, outcome='refused')
        return
    judge(qr, parts, v, lvl, acc, case)


def obligations(agg, tier):
    grid = agg.sets.get('grid', set())
    cells = {}
    for (v, lvl, r, d) in grid:
        cells.setdefault((v, lvl), set()).add((r, d))
    vers = T.ORDER if tier == 'thorough' else T.MICRO + tuple(range(1, 11)) + (26, 27, 40)
    for v in vers:
        for lvl in T.levels_of(v):
            g = cells.get((v, lvl), set())
            if T.is_micro(v):
                if len(g) < (4 if v == 'M1' else 6):
                    yield 'cell %s-%s reached only %d (residue, distance) states' % (v, lvl, len(g))
                continue
            res = {r for r, d in g}
            dist = {d for r, d in g}
            need = {d for d in range(13) if solve(v, lvl, d) is not None}
            if len(need) < 12:
                yield 'cell %s-%s: only distances %r are constructible' % (v, lvl, sorted(need))
            if len(res) < 8 or not need <= dist:
                yield 'cell %s-%s: residues %r distances %r' % (v, lvl, sorted(res), sorted(dist))
    if agg.ctr.get('conforming', 0) < 1000:
        yield 'only %d conforming streams seen' % agg.ctr.get('conforming', 0)
