"""C14 - arguments are honoured or refused with ValueError; nothing else escapes.

All argument vectors with <= k deviations from the defaults over the documented argument domains (boundary and malformed
values included) for make / make_qr / make_micro / make_sequence, the serialisers and the command line tool.  Oracle:
outcome class (symbol that decodes to the content | ValueError | LookupError exactly for an unknown codec), documented
exclusions always refused, alternative spellings identical to the canonical spelling, no endless loop (watchdog)."""
import contextlib
import io
import itertools
import os
import shutil
import signal
import subprocess
import sys
import tempfile

from qrref import tables as T, model as Mo
from readers import raster as R, vector as V
from . import common as C
from .common import segno
from .c01 import deviations
import segno.cli as cli

ID = 'C14'
LEVEL = 'exploration'
TITLE = 'Arguments are honoured or refused with ValueError; nothing else escapes'
RULE = ('all argument vectors with <= k deviations from the documented defaults, per entry point (make, make_qr, make_micro, make_sequence, '
        'QRCode.save per kind, matrix_iter, segno.cli.main) over domains containing every documented spelling and the boundary / malformed '
        'values named in the statement; each call under a 20 s watchdog; a returned symbol is decoded and must carry the content; any '
        'exception other than ValueError (LookupError only for an unknown codec name) is a violation; documented exclusions must be refused; '
        'alternative spellings must give the identical matrix. non-trivial = symbol returned, or a refusal that the model requires')
BOUNDS = {'quick': 'k = 2 (k = 1 for the 7089-digit content); ~90 CLI subprocess runs', 'thorough': 'k = 3; full product of {version, error, mode, mask, micro} on 4 contents'}
ASSUMPTIONS = ['documented argument types only (str/bytes/int content; str/int versions and masks; str levels/modes/encodings; bool/None flags); '
               'per-part tuples, float versions, int colours are outside the documented domain',
               'exception classes are compared exactly: IndexError/KeyError are LookupError subclasses and count as violations']
CHUNK = 8

CONTENTS = ['', '1', 'A', 'a', '\xe9', '点', '书', b'', b'\x81', b'\x81\x40', 0, 7, -1, '1' * 7089]
DOMAINS = [
    ('error', [None, 'L', 'l', 'M', 'm', 'Q', 'q', 'H', 'h', 'x', '', '-']),
    ('version', [None, 1, '1', '01', 2, 40, '40', 41, 0, -1, 'M1', 'm1', 'M2', 'M3', 'M4', 'm4', 'M5', 'm5', '', 'x',
                 '0', '-1', '-2', '-3', '-4', '00', '41', 42, -3, -4]),        # (numeric strings / ints that collide with internal constants)
    ('mode', [None, 'numeric', 'alphanumeric', 'byte', 'kanji', 'hanzi', 'NUMERIC', 'Kanji', 'Byte', 'x', '']),
    ('mask', [None, 0, 3, 4, 7, 8, -1, '2', '7', 'x', '8', '-1']),
    ('encoding', [None, 'utf-8', 'UTF-8', 'latin1', 'shift_jis', 'ascii', 'foo']),
    ('eci', [False, True]),
    ('micro', [None, True, False]),
    ('boost_error', [True, False]),
]
CANON = {'error': {'l': 'L', 'm': 'M', 'q': 'Q', 'h': 'H'},
         'version': {'1': 1, '01': 1, '40': 40, 'm1': 'M1', 'm4': 'M4'},
         'mode': {'NUMERIC': 'numeric', 'Kanji': 'kanji', 'Byte': 'byte'},
         'mask': {'2': 2, '7': 7}}
INVALID = {'error': {'x', '', '-'}, 'version': {41, 0, -1, 'M5', 'm5', '', 'x', '0', '-1', '-2', '-3', '-4', '00', '41', 42, -3, -4}, 'mode': {'x', ''},
           'mask': {8, -1, 'x', '8', '-1'}, 'encoding': {'foo'}}
MICRO_VERS = ('M1', 'M2', 'M3', 'M4')
ENTRY = {'make': segno.make, 'make_qr': segno.make_qr, 'make_micro': segno.make_micro}


class Timeout(Exception):
    pass


def _alarm(signum, frame):
    raise Timeout()


@contextlib.contextmanager
def watchdog(seconds=20):
    old = signal.signal(signal.SIGALRM, _alarm)
    signal.alarm(seconds)
    try:
        yield
    finally:
        signal.alarm(0)
        signal.signal(signal.SIGALRM, old)


def canon_kw(kw):
    out = {}
    for k, v in kw.items():
        try:
            out[k] = CANON.get(k, {}).get(v, v)
        except TypeError:
            out[k] = v
    return out


def must_refuse(entry, kw, content=None):
    """Reason why the documentation excludes this argument vector, or None."""
    ckw = canon_kw(kw)
    for k in ('error', 'version', 'mode', 'mask', 'encoding'):
        v = ckw.get(k)
        if k == 'encoding' and (isinstance(content, bytes) or ckw.get('mode') == 'hanzi'):
            continue        # the codec name is only looked up when text has to be encoded (or an ECI number is needed)
        try:
            if v in INVALID[k]:
                return 'invalid %s %r' % (k, v)
        except TypeError:
            pass
    ver = ckw.get('version')
    micro_ver = ver in MICRO_VERS
    micro = ckw.get('micro')
    if entry == 'make_micro':
        micro = True
    if entry == 'make_qr':
        micro = False
    is_micro = micro is True or micro_ver
    if entry == 'make_sequence' and micro_ver:
        return 'Structured Append with a Micro QR version'
    if is_micro and ckw.get('error') == 'H':
        return 'level H with Micro QR'
    if is_micro and ckw.get('eci'):
        return 'ECI with Micro QR'
    if is_micro and ckw.get('mode') == 'hanzi':
        return 'hanzi with Micro QR'
    if micro is True and ver is not None and not micro_ver:
        return 'QR version with micro=True'
    if micro is False and micro_ver:
        return 'Micro version with micro=False'
    if ver is not None and ckw.get('mode') is not None and not T.mode_supported(ckw['mode'], ver):
        return 'mode %r not available in version %r' % (ckw['mode'], ver)
    m = ckw.get('mask')
    if m is not None and is_micro and not 0 <= m < 4:
        return 'mask %r out of range for Micro QR' % m
    sc = ckw.get('symbol_count')
    if entry == 'make_sequence':
        if sc is not None and not 1 <= sc <= 16:
            return 'symbol_count %r outside 1..16' % sc
        if sc is None and ver is None:
            return 'neither version nor symbol_count'
    return None


def call_entry(entry, content, kw):
    fn = ENTRY.get(entry) or segno.make_sequence
    try:
        with watchdog():
            return fn(content, **kw), None
    except Timeout:
        return None, Timeout('no result after 20 s')
    except Exception as e:
        return None, e


def judge_call(entry, content, kw, acc):
    case = ('call', entry, content if not (isinstance(content, str) and len(content) > 100) else ('long', len(content)), kw)
    res, exc = call_entry(entry, content, kw)
    reason = must_refuse(entry, kw, content)
    if exc is not None:
        name = C.exc_name(exc)
        acc.eval(case, nontrivial=reason is not None, outcome='exc:' + name, state=(entry, name, reason))
        acc.count('refused')
        if isinstance(exc, Timeout):
            acc.violation('endless-loop/%s' % entry, '%s(%r, **%r) did not return within 20 s' % (entry, content if len(repr(content)) < 40 else '...', kw), case)
        elif isinstance(exc, ValueError):
            pass
        elif type(exc) is LookupError and canon_kw(kw).get('encoding') == 'foo':
            acc.count('lookup_error_unknown_codec')
        else:
            acc.violation('escaped/%s/%s' % (name, entry), '%s(%r, **%r) raised %s: %s' % (entry, content if len(repr(content)) < 40 else '...', kw, name, str(exc)[:80]), case)
        return None
    acc.count('accepted')
    if reason is not None:
        acc.eval(case, nontrivial=True, outcome='accepted-excluded', state=(entry, 'accepted', reason))
        acc.violation('exclusion-accepted/%s' % reason.split(' ')[0], '%s(%r, **%r) returned a symbol although the documentation excludes: %s'
                      % (entry, content if len(repr(content)) < 40 else '...', kw, reason), case)
        return res
    if entry == 'make_sequence':
        from . import c08
        ckw = canon_kw(kw)
        acc.evals -= 0
        c08.check_seq(content, ckw, acc, 'c14')
        return res
    symbols = [res]
    acc.eval(case, nontrivial=True, outcome=tuple(q.designator for q in symbols), state=(entry, 'ok', symbols[0].designator, symbols[0].mode))
    acc.sample({'entry': entry, 'content': content if len(repr(content)) < 40 else '...', 'kw': kw, 'result': [q.designator for q in symbols]})
    # the symbol must satisfy C01-C03
    ckw = canon_kw(kw)
    try:
        exp = C.expected_parts(content, ckw.get('mode'), ckw.get('encoding'))
    except (UnicodeError, LookupError):
        exp = None
    if exp is None:
        acc.violation('accepted-unencodable', '%s(%r, **%r) returned a symbol although the text cannot be encoded' % (entry, content, kw), case)
        return res
    payload = b''
    for q in symbols:
        rep = C.read(q)
        bad = [p for p in rep.problems if C.classify_problem(p) != 'remainder-bits']
        if bad:
            acc.violation('invalid-symbol/%s' % entry, '%s(..., **%r) -> %s: %s' % (entry, kw, q.designator, bad[0]), case)
            return res
        payload += rep.payload
        if entry != 'make_sequence':
            for fam, msg in C.judge_payload(rep, exp, bool(kw.get('eci'))):
                acc.violation('invalid-symbol/%s/%s' % (entry, fam), msg, case)
        for fam, msg in C.meta_problems(q, rep):
            acc.violation('invalid-symbol/%s' % fam, msg, case)
        if entry == 'make_micro' and not q.is_micro or entry in ('make_qr', 'make_sequence') and q.is_micro:
            acc.violation('wrong-symbology/%s' % entry, '%s returned %s' % (entry, q.designator), case)
    if entry == 'make_sequence' and payload != b''.join(b for b, _ in exp):
        acc.violation('invalid-symbol/make_sequence/payload', 'sequence payload differs from the content', case)
    return res


def judge_spelling(entry, content, kw, acc):
    ckw = canon_kw(kw)
    if ckw == kw:
        return
    r1, e1 = call_entry(entry, content, kw)
    r2, e2 = call_entry(entry, content, ckw)
    case = ('spelling', entry, content, kw)
    o1 = type(e1).__name__ if e1 is not None else [q.matrix for q in (r1 if entry == 'make_sequence' else [r1])]
    o2 = type(e2).__name__ if e2 is not None else [q.matrix for q in (r2 if entry == 'make_sequence' else [r2])]
    acc.eval(case, nontrivial=e2 is None, outcome=(o1 == o2), state=('spelling', tuple(sorted(kw)), e2 is None))
    acc.count('spellings')
    if o1 != o2:
        acc.violation('spelling/%s' % '+'.join(k for k in kw if kw[k] != ckw[k]), '%s(%r, **%r) differs from the canonical spelling %r: %s vs %s'
                      % (entry, content, kw, ckw, o1 if e1 else 'symbol', o2 if e2 else 'symbol'), case)


SEQ_DOMAINS = [('version', [None, 1, '1', 2, 40, 41, 0, 'M1', 'm4']), ('symbol_count', [None, 0, 1, 2, 16, 17]),
               ('error', [None, 'L', 'h', 'x']), ('mode', [None, 'numeric', 'byte', 'alphanumeric', 'kanji', 'x']), ('mask', [None, 0, 7, 8, '2']),
               ('encoding', [None, 'utf-8', 'foo']), ('boost_error', [True, False])]
SEQ_CONTENTS = ['', '1', '12345678901234567890123456789012345678901234567890', 'HELLO WORLD HELLO WORLD HELLO WORLD', 'hello',
                b'\xfe\xff\x00abcdefghijklmnopqrstuvwxyz', '点漢字茶点漢字茶点漢字茶', 7 ** 30, 0]

SAVE_KINDS = ('svg', 'png', 'eps', 'pdf', 'pam', 'ppm', 'xpm', 'pbm', 'xbm', 'tex', 'txt', 'ans')
COLOUR_KINDS = ('svg', 'png', 'eps', 'pdf', 'pam', 'ppm', 'xpm')
BAD_COLOURS = ['', '#12', '#ggg', 'nope', (1, 2), (256, 0, 0), (0, 0, 0, 2.0), '#12345', (1, 2, 3, 4, 5), '#', (-1, 0, 0), '##123', '###fff', '##112233',
               '#1234567', '# 123', '12 3', '#-12', (0, 0), (1.5, 300, 0), '0x123',
               # four-channel tuples with a channel out of range
               (256, 0, 0, 255), (-1, 0, 0, 128), (300, 5, 5, 0.5), (0, 256, 0, 1.0), (0, 0, 999, 0), (0, 0, 0, 256), (0, 0, 0, -1), (0, 0, 0, 1.5), (0, 0, 0, -0.5)]


TWINS = [((10, 20, 30, 128), (10, 20, 30, 128.0)), ((0, 0, 0, 2), (0, 0, 0, 2.0)), ((255, 255, 255, 255), (255, 255, 255, 255.0)), ((0, 0, 0, 255), (0, 0, 0, 255.0)),
         ((255, 0, 0, 255), (255, 0, 0, 255.0))]


def gen_cases(tier):
    q = tier == 'quick'
    k = 2 if q else 3
    for entry in ('make', 'make_qr', 'make_micro'):
        doms = [d for d in DOMAINS if not (d[0] == 'micro' and entry != 'make') and not (d[0] == 'eci' and entry == 'make_micro')]
        for ci, content in enumerate(CONTENTS):
            kk = 1 if ci == len(CONTENTS) - 1 and q else (2 if ci == len(CONTENTS) - 1 else k)
            devs = list(deviations(doms, kk))
            for i in range(0, len(devs), 50):
                yield ('make', entry, ci, devs[i:i + 50])
    for ci in range(len(SEQ_CONTENTS)):
        devs = list(deviations(SEQ_DOMAINS, k))
        for i in range(0, len(devs), 50):
            yield ('seq', ci, devs[i:i + 50])
    if not q:
        for ci in (1, 3, 5, 9):
            for v in DOMAINS[1][1]:
                for e in DOMAINS[0][1]:
                    yield ('full', ci, v, e)
    for kind in SAVE_KINDS:
        yield ('save', kind)
    yield ('iter',)
    for i in range(0, len(cli_vectors(q)), 6):
        yield ('cli', i, i + 6, q)


def run_case(case, acc):
    kind = case[0]
    if kind == 'make':
        _, entry, ci, devs = case
        for kw in devs:
            kw = dict(kw)
            judge_call(entry, CONTENTS[ci], kw, acc)
            judge_spelling(entry, CONTENTS[ci], kw, acc)
    elif kind == 'seq':
        _, ci, devs = case
        for kw in devs:
            kw = dict(kw)
            judge_call('make_sequence', SEQ_CONTENTS[ci], kw, acc)
            judge_spelling('make_sequence', SEQ_CONTENTS[ci], kw, acc)
    elif kind == 'full':
        _, ci, v, e = case
        for mode in DOMAINS[2][1]:
            for mask in DOMAINS[3][1]:
                for micro in (None, True, False):
                    kw = {}
                    for name, val in (('version', v), ('error', e), ('mode', mode), ('mask', mask), ('micro', micro)):
                        if val is not None:
                            kw[name] = val
                    judge_call('make', CONTENTS[ci], kw, acc)
    elif kind == 'call':
        _, entry, content, kw = case
        if isinstance(content, tuple) and content and content[0] == 'long':
            content = '1' * content[1]
        judge_call(entry, content, dict(kw), acc)
    elif kind == 'spelling':
        judge_spelling(case[1], case[2], dict(case[3]), acc)
    elif kind == 'save':
        save_case(case[1], acc)
    elif kind == 'iter':
        iter_case(acc)
    elif kind == 'cli':
        vecs = cli_vectors(case[3])[case[1]:case[2]]
        for i, vec in enumerate(vecs):
            cli_case(vec, acc, subproc=True)
    elif kind == 'cli1':
        cli_case(tuple(case[1]), acc, subproc=True)
    else:
        raise ValueError(kind)


def expect_refusal(acc, case, what, fn, fam, known=None):
    try:
        with watchdog():
            fn()
        acc.eval(case, nontrivial=True, outcome='accepted')
        acc.violation('malformed-accepted/' + fam, '%s was accepted instead of being refused with ValueError' % what, case, known=known)
    except ValueError:
        acc.eval(case, nontrivial=True, outcome='ValueError')
        acc.count('serializer_refusals')
    except Exception as e:
        acc.eval(case, nontrivial=True, outcome=C.exc_name(e))
        acc.violation('escaped/%s/%s' % (C.exc_name(e), fam), '%s raised %s instead of ValueError: %s' % (what, C.exc_name(e), str(e)[:60]), case)


def save_case(kind, acc):
    qr = segno.make('12345', micro=False)
    text = kind in ('eps', 'tex', 'txt', 'ans', 'xbm', 'xpm')

    def out():
        return io.StringIO() if text else io.BytesIO()
    has_scale = kind not in ('txt', 'ans')
    raster = kind in ('png', 'pam', 'ppm', 'xpm', 'pbm', 'xbm')
    if has_scale:
        for s in (0, -1, -0.5) + ((0.5, 0.99) if raster else ()):
            expect_refusal(acc, ('save', kind, 'scale', s), 'save(kind=%r, scale=%r)' % (kind, s), lambda: qr.save(out(), kind=kind, scale=s), 'scale/' + kind)
    for b in (-1, 1.5, -0.5):
        expect_refusal(acc, ('save', kind, 'border', b), 'save(kind=%r, border=%r)' % (kind, b), lambda: qr.save(out(), kind=kind, border=b), 'border/' + kind)
    if kind in COLOUR_KINDS:
        for which in ('dark', 'light'):
            for c in BAD_COLOURS:
                expect_refusal(acc, ('save', kind, which, c), 'save(kind=%r, %s=%r)' % (kind, which, c),
                               lambda: qr.save(out(), kind=kind, **{which: c}), 'colour/' + kind)
        if kind in ('svg', 'png', 'ppm'):
            for c in BAD_COLOURS[:4]:
                expect_refusal(acc, ('save', kind, 'finder_dark', c), 'save(kind=%r, finder_dark=%r)' % (kind, c),
                               lambda: qr.save(out(), kind=kind, finder_dark=c), 'colour/' + kind)
    if kind in COLOUR_KINDS:
        # well-formed colours with an alpha channel: painted or - where the format has no alpha - refused with ValueError, nothing else
        for c in ('#0a141e80', (10, 20, 30, 128), (0, 0, 0, 0.5), '#0008', (255, 255, 255, 1), (200, 210, 220, 0.25)):
            for kw in ({'dark': c}, {'light': c}, {'dark': c, 'light': None}, {'dark': c, 'light': c}):
                case = ('save', kind, 'alpha', c, sorted(kw))
                try:
                    with watchdog():
                        qr.save(out(), kind=kind, **kw)
                    acc.eval(case, nontrivial=True, outcome='written')
                except ValueError:
                    acc.eval(case, nontrivial=True, outcome='ValueError')
                except Exception as e:
                    acc.eval(case, nontrivial=True, outcome=C.exc_name(e))
                    acc.violation('escaped/%s/alpha-colour/%s' % (C.exc_name(e), kind), 'save(kind=%r, **%r) raised %s instead of writing the file or refusing with ValueError: %s'
                                  % (kind, kw, C.exc_name(e), str(e)[:60]), case)
        # histories: a malformed colour right after (and right before) a well-formed one that compares equal to it (128 == 128.0)
        for good, bad in TWINS:
            for which in ('dark', 'light'):
                try:
                    qr.save(out(), kind=kind, **{which: good})
                    accepted = True
                except ValueError:
                    accepted = False          # (a kind without alpha channel refuses both)
                # known finding: black / white with the out-of-range float alpha 255.0 pass the writers' "is black / is white" shortcut
                kf = 'black-white-float-alpha-255-accepted' if (bad[:3] in ((0, 0, 0), (255, 255, 255)) and type(bad[3]) is float and bad[3] == 255.0
                                                                 and kind in ('svg', 'eps', 'pdf')) else None
                expect_refusal(acc, ('save', kind, which, bad, 'after', good), 'save(kind=%r, %s=%r) directly after the same call with %r' % (kind, which, bad, good),
                               lambda: qr.save(out(), kind=kind, **{which: bad}), 'colour/' + kind, known=kf)
                if accepted:
                    try:
                        qr.save(out(), kind=kind, **{which: good})
                    except Exception as e:
                        acc.violation('valid-refused-after-malformed/' + kind, 'save(kind=%r, %s=%r) raised %s after the malformed twin %r was refused'
                                      % (kind, which, good, C.exc_name(e), bad), ('save', kind))
    # valid calls in every letter case of the kind must work and agree
    ref = None
    for k in (kind, kind.upper(), kind.capitalize()):
        o = out()
        try:
            qr.save(o, kind=k)
            val = o.getvalue()
        except Exception as e:
            val = 'exc:' + C.exc_name(e)
        if ref is None:
            ref = val
        acc.eval(('save', kind, 'case', k), nontrivial=True, outcome=(val == ref))
        from .c12 import mask_ts
        same = (mask_ts(val.encode() if isinstance(val, str) else val) == mask_ts(ref.encode() if isinstance(ref, str) else ref))
        if not same or (isinstance(val, str) and val.startswith('exc:')):
            acc.violation('kind-spelling/' + kind, 'save(kind=%r) differs from save(kind=%r) (%s)' % (k, kind, val[:30] if isinstance(val, str) else 'document'),
                          ('save', kind))
    if kind == 'svg':
        # the compressed variant is selected by the file extension, in any letter case
        import gzip, tempfile as _tf
        d = _tf.mkdtemp(prefix='verif-c14-')
        try:
            ref = None
            for ext in ('svgz', 'SVGZ', 'SvgZ'):
                pth = os.path.join(d, 'x.' + ext)
                try:
                    qr.save(pth)
                    val = gzip.decompress(open(pth, 'rb').read())
                except Exception as e:
                    val = 'exc:' + C.exc_name(e)
                ref = val if ref is None else ref
                acc.eval(('save', 'svgz', ext), nontrivial=True, outcome=(val == ref))
                if val != ref or isinstance(val, str):
                    acc.violation('kind-spelling/svgz', 'save(\'x.%s\') differs from save(\'x.svgz\') (%s)' % (ext, val if isinstance(val, str) else 'document'), ('save', kind))
        finally:
            shutil.rmtree(d, ignore_errors=True)
    for k in ('xyz', '', 'svgg', 'pn'):
        expect_refusal(acc, ('save', 'kind', k), 'save(stream, kind=%r)' % k, lambda: qr.save(io.BytesIO(), kind=k), 'kind')


def iter_case(acc):
    qr = segno.make('12345', micro=False)
    for verbose in (False, True):
        for kw in ({'border': -1}, {'border': 1.5}, {'scale': 0}, {'scale': -3}, {'scale': 0.9}):
            expect_refusal(acc, ('iter', verbose, kw), 'matrix_iter(verbose=%r, **%r)' % (verbose, kw),
                           lambda: list(qr.matrix_iter(verbose=verbose, **kw)), 'matrix_iter')
    for kw in ({'scale': 0}, {'border': -1}, {'scale': -1, 'border': 2}):
        try:
            qr.symbol_size(**kw)            # informational: symbol_size does not validate (not part of the statement)
        except Exception:
            pass


def cli_vectors(quick):
    vecs = []
    contents = ['12345', 'Hello', '']
    kinds = ['svg', 'png', 'txt', 'pdf', 'eps', 'tex']
    opts = [[], ['--version', 'M1'], ['--version', 'm5'], ['--version', '41'], ['--version', '1', '--error', 'H'], ['--micro', '--error', 'H'],
            ['--version', 'M2', '--mode', 'byte'], ['--pattern', '8'], ['--pattern', '3', '--micro'], ['--mode', 'kanji'], ['--mode', 'hanzi', '--micro'],
            ['--encoding', 'utf-8'], ['--encoding', 'foo'], ['--seq'], ['--seq', '--version', '1'], ['--seq', '--symbol-count', '17'],
            ['--seq', '--symbol-count', '2'], ['--seq', '--version', 'M1'], ['--error', 'x'], ['--version', '1', '--mode', 'numeric'],
            ['--scale', '0'], ['--border', '-1'], ['--dark', 'nope'], ['--scale', '2.5', '--border', '0'],
            ['--version', 'm3'], ['--version', 'm1'], ['--version', 'm4', '--error', 'q'], ['--error', 'h', '--version', '2'], ['--mode', 'BYTE'],
            ['--version', 'm2', '--micro'], ['--error', 'l', '--micro'], ['--error', 'L', '--micro']]
    for ci, c in enumerate(contents):
        for oi, o in enumerate(opts):
            if c == '' and oi > 3:
                continue
            for ki, knd in enumerate(kinds):
                if (oi + ki + ci) % (3 if quick else 1) == 0 or oi < 2:
                    vecs.append((c, tuple(o), knd))
    vecs.append(('1' * 7090, (), 'svg'))
    vecs.append(('M\xe4rchen', ('--encoding', 'ascii'), 'svg'))
    vecs.append(('M\xe4rchen', ('--encoding', 'ascii'), None))
    vecs.append(('\u20ac', ('--encoding', 'latin1', '--version', '1'), 'png'))
    vecs.append(('abc', ('--mode', 'numeric'), 'txt'))
    vecs.append(('\u70b9', ('--mode', 'hanzi'), 'txt'))
    vecs.append(('12345', ('--version', '1'), None))
    vecs.append(('A' * 30, ('--version', '1'), None))
    return vecs


def cli_case(vec, acc, subproc=True):
    content, opts, kind = vec
    case = ('cli1', list(vec))
    tmp = tempfile.mkdtemp(prefix='verif-c14-')
    try:
        argv = list(opts)
        outp = None
        if kind is not None:
            outp = os.path.join(tmp, 'out.' + kind)
            argv += ['-o', outp]
        argv.append(content)
        env = dict(os.environ, PYTHONPATH=os.environ['VERIF_REPO'], PYTHONDONTWRITEBYTECODE='1')
        try:
            r = subprocess.run([sys.executable, '-m', 'segno.cli'] + argv, capture_output=True, text=True, env=env, timeout=120)
            rc, err, outtxt = r.returncode, r.stderr, r.stdout
        except subprocess.TimeoutExpired:
            acc.eval(case, nontrivial=True, outcome='timeout')
            acc.violation('endless-loop/cli', 'segno %r did not finish within 120 s' % (argv,), case)
            return
        # what does the library say for the same request?
        try:
            with contextlib.redirect_stderr(io.StringIO()), contextlib.redirect_stdout(io.StringIO()):
                cfg = cli.parse(list(argv))
            parsed = True
        except SystemExit:
            parsed = False
        lib_exc = None
        if parsed:
            try:
                with contextlib.redirect_stdout(io.StringIO()):
                    cli.make_code(dict(cfg))
            except ValueError as e:
                lib_exc = e
            except Exception as e:
                lib_exc = e
        # alternative spellings on the command line must behave like the canonical spelling
        canon = [{'m1': 'M1', 'm2': 'M2', 'm3': 'M3', 'm4': 'M4', 'l': 'L', 'q': 'Q', 'h': 'H', 'BYTE': 'byte'}.get(a, a) if i and argv[i - 1] in
                 ('--version', '--error', '--mode') else a for i, a in enumerate(argv)]
        if canon != argv:
            outp2 = None
            if outp is not None:
                outp2 = os.path.join(tmp, 'canon.' + kind)
                canon[canon.index(outp)] = outp2
            r2 = subprocess.run([sys.executable, '-m', 'segno.cli'] + canon, capture_output=True, text=True, env=env, timeout=120)
            same = r2.returncode == rc and r2.stdout == outtxt
            if outp is not None and same:
                from .c12 import mask_ts
                b1 = open(outp, 'rb').read() if os.path.exists(outp) else None
                b2 = open(outp2, 'rb').read() if os.path.exists(outp2) else None
                same = (b1 is None) == (b2 is None) and (b1 is None or mask_ts(b1) == mask_ts(b2))
            acc.count('cli_spellings')
            if not same:
                acc.violation('cli-spelling', 'segno %r behaves differently from the canonical spelling %r (status %d vs %d; stderr %r)'
                              % (argv, canon, rc, r2.returncode, err[-100:]), case)
            # and the library itself accepts the spelling: the request must not be refused because of it
            try:
                kwv = {}
                if '--version' in argv:
                    kwv['version'] = argv[argv.index('--version') + 1]
                if '--error' in argv:
                    kwv['error'] = argv[argv.index('--error') + 1]
                if '--mode' in argv:
                    kwv['mode'] = argv[argv.index('--mode') + 1]
                if '--micro' in argv:
                    kwv['micro'] = True
                elif not str(kwv.get('version', '')).upper().startswith('M'):
                    kwv['micro'] = False
                segno.make(content, **kwv)
                api_ok = True
            except ValueError:
                api_ok = False
            if api_ok and rc != 0:
                acc.violation('cli-spelling', 'segno %r fails (status %d, %r) although segno.make(%r, **%r) succeeds' % (argv, rc, err[-100:], content, kwv), case)
        acc.eval(case, nontrivial=True, outcome=(rc, lib_exc is not None, parsed), state=('cli', rc, type(lib_exc).__name__, kind))
        acc.count('cli_runs')
        acc.add('cli_status', rc)
        if rc == 0:
            if not parsed or lib_exc is not None:
                acc.violation('cli-status-0-after-refusal', 'segno %r exited 0 although the request is refused (%s)' % (argv, lib_exc), case)
            elif outp is not None:
                if not os.path.exists(outp) and '--seq' not in argv:
                    acc.violation('cli-status-0-without-output', 'segno %r exited 0 without writing %s' % (argv, os.path.basename(outp)), case)
                elif '--seq' in argv and not os.listdir(tmp):
                    acc.violation('cli-status-0-without-output', 'segno --seq %r exited 0 without writing a file' % (argv,), case)
                elif os.path.exists(outp):
                    data = open(outp, 'rb').read()
                    try:
                        if kind == 'png':
                            R.read_png(data)
                        elif kind == 'svg':
                            V.read_svg(data)
                        elif kind == 'pdf':
                            V.read_pdf(data)
                        elif kind == 'eps':
                            V.read_eps(data.decode('ascii'))
                        elif kind == 'tex':
                            V.read_tex(data.decode('ascii'))
                        elif not data:
                            raise V.Malformed('empty file')
                    except (R.Malformed, V.Malformed) as e:
                        acc.violation('cli-output-malformed/%s' % kind, 'segno %r wrote a malformed %s: %s' % (argv, kind, e), case)
            elif not outtxt:
                acc.violation('cli-status-0-without-output', 'segno %r printed nothing' % (argv,), case)
        else:
            if parsed and isinstance(lib_exc, ValueError):
                if rc != 1 or 'Traceback' in err or str(lib_exc) not in err:
                    acc.violation('cli-refusal-report', 'segno %r: library refuses with %r; CLI status %d, stderr %r' % (argv, str(lib_exc)[:60], rc, err[-120:]), case)
                else:
                    acc.count('cli_refusals_reported')
            elif parsed and type(lib_exc) is LookupError and 'foo' in argv:
                acc.count('cli_unknown_codec')      # LookupError for an unknown codec is not a "refusal" in the statement's sense
            elif parsed and lib_exc is not None:
                acc.violation('escaped/%s/cli' % C.exc_name(lib_exc), 'segno %r: creating the symbol raises %s' % (argv, C.exc_name(lib_exc)), case)
            elif parsed and lib_exc is None and 'Traceback' in err and not any(o in argv for o in ('--scale', '--border', '--dark')):
                acc.violation('cli-traceback', 'segno %r failed with a traceback although the symbol can be created: %r' % (argv, err[-160:]), case)
    finally:
        shutil.rmtree(tmp, ignore_errors=True)


def obligations(agg, tier):
    if agg.ctr.get('accepted', 0) < 2000 or agg.ctr.get('refused', 0) < 2000:
        yield 'accepted/refused: %r/%r' % (agg.ctr.get('accepted'), agg.ctr.get('refused'))
    if agg.ctr.get('lookup_error_unknown_codec', 0) < 1:
        yield 'the unknown-codec LookupError path was never taken'
    if agg.ctr.get('serializer_refusals', 0) < 50:
        yield 'serializer refusals: %r' % agg.ctr.get('serializer_refusals')
    if agg.ctr.get('cli_refusals_reported', 0) < 5 or not {0, 1} <= agg.sets.get('cli_status', set()):
        yield 'CLI: refusals reported %r, statuses %r' % (agg.ctr.get('cli_refusals_reported'), sorted(agg.sets.get('cli_status', ())))
    if agg.ctr.get('spellings', 0) < 500:
        yield 'alternative spellings compared: %r' % agg.ctr.get('spellings')
