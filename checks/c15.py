"""C15 - encoding is pure: deterministic, history-free, thread-safe, idempotent.

E-hist : explicit-state BFS over call histories (mc/hist.py) + all explicit histories up to a length bound, differential
         oracle = the same call made first thing in a fresh interpreter (references under three hash seeds).
E-sched: all two-thread schedules with <= p preemptions (mc/sched.py) for a set of operation pairs.
E-space: idempotence (re-encode with the reported version / level / mask) over the C02 and C04 configurations."""
import itertools
import json
import multiprocessing as mp
import os
import random
import subprocess
import sys
import time
from concurrent.futures import ThreadPoolExecutor

from mc import runner, hist, sched
from qrref import tables as T
from . import common as C
from .common import segno
from . import c15ops as O
from . import selection as S

ID = 'C15'
LEVEL = 'model_checking'
TITLE = 'Encoding is pure: deterministic, history-free, thread-safe, idempotent'
RULE = ('E-hist: BFS from the initial interpreter state over a menu of %d real API calls; state = canonical hash of everything reachable from '
        'the segno.* module globals + shared argument objects + previously returned objects; every call\'s observation compared with the same '
        'call made first thing in a fresh interpreter (3 hash seeds); plus ALL explicit histories of length <= n. E-sched: ALL schedules with '
        '<= p preemptions of two real threads (settrace baton scheduler; line / call / opcode granularity) for a set of operation pairs, both '
        'results compared with the sequential references, each failing schedule replayed twice; at "shared" granularity the scheduling points are '
        'exactly the bytecode instructions that access module-level mutable state or names rebound with `global` (partial-order reduction). '
        'Long histories: several thousand different small make() calls in 2-3 orders, each call must give the same result in every order. E-space: re-encoding every C02 / C04-boundary '
        'configuration with the reported version, level and mask reproduces the matrix.' % len(O.OPS))
BOUNDS = {"quick": "histories n <= 2 (all ordered pairs) + the same ~5900 calls in two orders; schedules p <= 1 at line granularity for 2 encoder pairs and 2 shared-symbol pairs, at call granularity for 4 encoder + 4 serializer pairs, at line granularity restricted to helpers.py for 5 helper pairs; p <= 2 at shared-access granularity for 4 pairs and p <= 1 for 11 more (for the same-operation pairs only thread 0 is preempted in the quick tier)",
          'thorough': 'histories n <= 3 on a 22-operation core menu (n <= 2 on all); p <= 1 at line granularity for all small pairs, at call '
                      'granularity for 6 large pairs, at opcode granularity for 2 pairs; p <= 2 for (fail_mode || make M1) at line and '
                      '(fail_mode || save ppm) at call granularity; p <= 2 at shared-access granularity for 15 pairs and at line granularity '
                      'restricted to helpers.py for 5 helper pairs; the same ~8300 calls in three orders'}
ASSUMPTIONS = ['preemption inside C-level calls is impossible under the GIL; more than two threads are not explored',
               'every schedule is executed in a forked copy of a process that never ran a library operation, i.e. from the initial state',
               'state the canonicaliser cannot see (C-level globals) is covered only by the explicit histories, not by the self-loop argument',
               'creation timestamps of EPS/PDF/TeX are masked']
CHUNK = 4

CORE = ['make_section_sign', 'make_greek', 'make_list_args', 'broken_stream_tex', 'make_eci_utf8', 'make_eci_latin', 'fail_eci_utf16', 'make_int_1', 'make_bool_true', 'make_ab', 'make_ab_cd', 'make_q_auto', 'eps_float_tuple', 'eps_int_tuple', 'make_m1_numeric', 'make_m2_alnum', 'make_m3_kanji', 'make_1h', 'make_2_align', 'make_parts', 'make_eci', 'make_hanzi', 'seq_version',
        'seq_count', 'save_png_palette', 'save_png_colorful', 'save_ppm_colormap', 'save_ppm_colormap_b', 'save_svg_colorful', 'save_pdf',
        'matrix_iter_verbose', 'helper_epc', 'cli_terminal', 'fail_overflow', 'fail_colour', 'fail_mode']
PAIRS_SMALL = [('make_m1_numeric', 'make_m1_other'), ('make_m2_alnum', 'make_m3_byte'), ('make_m1_numeric', 'make_parts'),
               ('make_m3_kanji', 'make_m3_byte'), ('fail_mode', 'make_m1_numeric')]
PAIRS_SAVE = [('ppm_small_a', 'ppm_small_b'), ('png_small', 'svg_small'), ('seq_small', 'make_m2_alnum'), ('ppm_small_a', 'make_m1_numeric'),
              ('iter_verbose_v2_a', 'iter_verbose_v2_b'), ('make_1h', 'make_1h_other'),
              ('shared_svg', 'shared_matrix'), ('shared_eps', 'shared_png')]
# pairs whose scheduling points are restricted to one source file (the encoder underneath runs atomically; its own interleavings are
# explored by the other pairs): the helper factories' own state
PAIRS_FILE = [('helper_epc', 'helper_epc_b', 'helpers.py'), ('helper_mecard', 'helper_mecard_b', 'helpers.py'), ('helper_wifi', 'helper_wifi_b', 'helpers.py'),
              ('helper_vcard', 'helper_vcard_b', 'helpers.py'), ('helper_email', 'helper_geo', 'helpers.py')]
# pairs explored at 'shared' granularity (mc/sched.py): scheduling points are exactly the bytecode instructions that access module-level
# mutable state or names rebound with `global` - a partial-order reduction that keeps whole-symbol operations affordable with p = 2
PAIRS_SHARED = [('iter_verbose_v2_a', 'iter_verbose_v2_b', 2), ('seq_small', 'make_q_auto', 2), ('make_7_version', 'make_8_version', 2), ('make_m1_numeric', 'make_m1_other', 2),
                ('make_2_align', 'make_7_version', 1), ('make_m3_kanji', 'make_1h', 1), ('seq_small', 'seq_version', 1),
                ('save_png_colorful', 'save_svg_colorful', 1), ('save_ppm_colormap', 'save_png_palette', 1), ('make_hanzi', 'make_eci', 1),
                ('helper_epc', 'helper_epc_b', 1), ('matrix_iter_verbose', 'iter_verbose_v2_a', 1), ('cli_terminal', 'make_parts', 1),
                ('make_1h', 'make_1h_other', 1), ('save_pdf', 'save_eps', 1), ('cli_save_png', 'cli_save_svg', 1), ('save_svg_twins', 'save_ppm_twins', 1),
                ('helper_epc', 'helper_epc_tie', 1), ('make_m3_byte', 'make_2_align', 1)]
PAIRS_LARGE = [('save_ppm_colormap', 'save_ppm_colormap_b'), ('save_png_palette', 'save_svg'),
               ('seq_count', 'make_m2_alnum'), ('save_png_colorful', 'make_m1_numeric'), ('make_m2_alnum', 'fail_overflow')]
SAME_SHAPE = {('make_m1_numeric', 'make_m1_other'), ('ppm_small_a', 'ppm_small_b'), ('iter_verbose_v2_a', 'iter_verbose_v2_b'), ('make_1h', 'make_1h_other')}
LIBDIR = os.path.dirname(os.path.realpath(segno.__file__))


# ------------------------------------------------------------------------------------------- references
def fresh_refs(seeds=(0, 1, 4242)):
    """observation digest of every operation executed first thing in a fresh interpreter, per hash seed"""
    verif = os.path.dirname(os.path.dirname(os.path.abspath(__file__)))

    def one(args):
        name, seed = args
        env = dict(os.environ, PYTHONHASHSEED=str(seed), PYTHONDONTWRITEBYTECODE='1')
        p = subprocess.run([sys.executable, '-m', 'checks.c15ops', name], cwd=verif, env=env, capture_output=True, text=True, timeout=300)
        if p.returncode != 0:
            raise runner.CheckerError('reference run of %s failed: %s' % (name, p.stderr[-300:]))
        return name, seed, p.stdout.split()[-1]
    res = {}
    with ThreadPoolExecutor(16) as ex:
        for name, seed, dig in ex.map(one, [(n, s) for n in O.OPS for s in seeds]):
            res.setdefault(name, {})[seed] = dig
    return res


# ------------------------------------------------------------------------------------------- histories
_REFS = None


def run_history(ops):
    """Executed inside a forked child of a pristine process.  Returns list of per-step records."""
    recs = []
    args0 = O.args_digest()
    tables0 = hist.library_state_hash(only='segno.consts')
    returned = []           # (op index, canonical digest at return time, live object)
    for i, name in enumerate(ops):
        obs, live = O.observe(name)
        rec = {'op': name, 'obs': O.digest(obs), 'state': hist.library_state_hash(), 'args_ok': O.args_digest() == args0, 'returned_ok': True,
               'tables_ok': hist.library_state_hash(only='segno.consts') == tables0}
        for (j, dig, obj) in returned:
            if O.digest(O.canon(obj)) != dig:
                rec['returned_ok'] = False
                rec['returned_changed'] = j
        if live is not None:
            returned.append((i, O.digest(O.canon(live)), live))
        recs.append(rec)
    return recs


def _hist_task(batch):
    out = []
    for ops in batch:
        st, res = hist.run_forked(lambda: run_history(ops))
        out.append((ops, st, res))
    return out


def judge_history(ops, st, res, refs, acc, s0, states):
    case = ('hist', list(ops))
    if st != 'ok':
        raise runner.CheckerError('history %r crashed the child: %s' % (ops, res))
    ok = True
    for i, rec in enumerate(res):
        states.add(rec['state'])
        ref = refs[rec['op']][0]
        if rec['obs'] != ref:
            ok = False
            acc.violation('history-dependent/%s' % rec['op'], 'operation %s after history %r gives a different result than first thing in a fresh '
                          'interpreter' % (rec['op'], list(ops[:i])), case, obs=rec['obs'], exp=ref)
        if not rec['args_ok']:
            ok = False
            acc.violation('arguments-modified/%s' % rec['op'], 'operation %s (history %r) modified a shared argument object' % (rec['op'], list(ops[:i])), case)
        if not rec.get('tables_ok', True):
            ok = False
            acc.violation('lookup-table-modified/%s' % rec['op'], 'operation %s (history %r) modified the lookup tables in segno.consts'
                          % (rec['op'], list(ops[:i])), case)
        if not rec['returned_ok']:
            ok = False
            acc.violation('returned-object-modified/%s' % rec['op'], 'operation %s modified the object returned by step %d of history %r'
                          % (rec['op'], rec.get('returned_changed', -1), list(ops)), case)
    acc.eval(('hist',) + tuple(ops), nontrivial=True, outcome=tuple(r['obs'] for r in res), state=res[-1]['state'])
    acc.count('history_steps', len(res))
    return ok


# ------------------------------------------------------------------------------------------- long histories
def long_contents(tier):
    """several thousand different small contents: every 3-digit group, alphanumeric pairs, single bytes, kanji characters"""
    out = [('%03d' % i, {}) for i in range(1000)] + [('%02d' % i, {}) for i in range(100)]
    alnum = '0123456789ABCDEFGHIJKLMNOPQRSTUVWXYZ $%*+-./:'
    step = 1
    out += [(a + b, {}) for i, a in enumerate(alnum) for j, b in enumerate(alnum) if (i * 45 + j) % step == 0 and not (a + b).isdigit()]
    out += [(bytes([b]), {'micro': False}) for b in range(256)]
    n = 0
    for code in range(0x889f, 0x9ffd):
        if n >= (2600 if tier == 'quick' else 5000):
            break
        try:
            ch = bytes([code >> 8, code & 0xff]).decode('shift_jis')
        except UnicodeDecodeError:
            continue
        if len(ch) == 1:
            out.append((ch, {}))
            n += 1
    return out


def _long_child(tier, order):
    items = long_contents(tier)
    idx = list(range(len(items)))
    if order == 'reverse':
        idx.reverse()
    elif order == 'interleaved':
        idx = idx[::2] + idx[1::2][::-1]
    res = {}
    for i in idx:
        content, kw = items[i]
        try:
            q = segno.make(content, **kw)
            res[i] = O.digest(O.canon_qr(q))
        except Exception as e:
            res[i] = 'EXC %s %s' % (type(e).__name__, str(e)[:80])
    return res


def _long_task(args):
    return args[1], hist.run_forked(lambda: _long_child(*args))


# ------------------------------------------------------------------------------------------- schedules
_PAIR_CACHE = {}


def _fn(name):
    return lambda: O.observe(name)[0]


PROLOGUE = {('shared_svg', 'shared_matrix'), ('shared_eps', 'shared_png'), ('shared_svg', 'shared_iter'), ('shared_png', 'shared_eps')}


# the SAME request in both threads after a different earlier request of the same kind (a "previous call" memo that is published
# before it is complete is only wrong for a second caller with the same key)
PRIOR = {('seq_count_200', 'seq_count_200'): 'seq_count_tiny', ('make_1h', 'make_1h'): 'make_2_align', ('save_png_twins', 'save_png_twins'): 'save_svg_twins',
         ('make_7_version', 'make_7_version'): 'make_8_version', ('helper_epc', 'helper_epc'): 'helper_epc_b'}


def _prologue(a, b):
    if (a, b) in PRIOR:
        O.observe(PRIOR[(a, b)])
    if (a, b) in PROLOGUE:
        O.prologue_shared()             # one symbol created before the threads start; both threads work on the SAME object


# after the two threads have finished, these operations run sequentially in the same process: state that a race left behind
# (a poisoned cache, a shifted shared sequence) shows in symbols created afterwards even where both concurrent results were right
EPILOGUE = ('make_2_align', 'make_1h', 'make_m2_alnum', 'make_m3_kanji', 'seq_small', 'make_7_version')


def _epilogue(gran):
    if not (gran.startswith('shared') or '@' in gran):
        return ()           # (line / call / opcode pairs have tens of thousands of schedules: the epilogue is run on the reduced ones)
    return tuple(O.digest(O.observe(n)[0]) for n in EPILOGUE) + (hist.library_state_hash(),)


def _profile_child(a, b, gran):
    _prologue(a, b)
    ra, rb = O.digest(O.observe(a)[0]), O.digest(O.observe(b)[0])
    return (ra, rb) + _epilogue(gran)


def _exec_child(a, b, gran, start, switches):
    _prologue(a, b)
    libdir = LIBDIR
    gran0 = gran
    if '@' in gran:
        gran, fname = gran.split('@')
        libdir = os.path.join(LIBDIR, fname)
    res, st, pre = sched.Execution([_fn(a), _fn(b)], libdir, start, switches, gran).run()
    return tuple(O.digest(r) for r in res) + _epilogue(gran0), tuple(st), pre, [repr(r)[:160] for r in res]


def forked(fn, *args):
    st, res = hist.run_forked(lambda: fn(*args))
    if st != 'ok':
        raise runner.CheckerError('forked execution failed: %s' % res)
    return res


def pair_profile(a, b, gran):
    """Sequential references and scheduling-point counts.  Everything is executed in forked children of this (pristine)
    worker, so that every execution starts from the library's initial state (lazily built globals not yet built)."""
    key = (a, b, gran)
    if key not in _PAIR_CACHE:
        ref = forked(_profile_child, a, b, gran)
        d1, steps, _, _ = forked(_exec_child, a, b, gran, 0, ())
        d2, steps2, _, _ = forked(_exec_child, a, b, gran, 1, ())
        ok = d1 == ref and d2 == ref
        _PAIR_CACHE[key] = ('ok' if ok else 'unstable', ref, steps, steps2)
    return _PAIR_CACHE[key]


def _profile_task(item):
    a, b, gran, bound = item
    return pair_profile(a, b, gran)


def _sched_task(task):
    a, b, gran, scheds = task[:4]
    if len(task) > 4:
        status, refs, steps = 'ok', task[4], None          # references computed once by the profile phase
    else:
        status, refs, steps, _ = pair_profile(a, b, gran)
    out = []
    for (start, switches) in scheds:
        try:
            digs, st, pre, shown = forked(_exec_child, a, b, gran, start, switches)
            bad = digs != refs
            rec = {'start': start, 'switches': list(switches), 'bad': bad, 'steps': list(st), 'preemptions': pre}
            if bad:
                # replay twice (each from the initial state): identical observations required before the failure is trusted
                again = [forked(_exec_child, a, b, gran, start, switches) for _ in range(2)]
                rec['replay_identical'] = all(x[0] == digs for x in again)
                rec['which'] = [i for i in (0, 1) if digs[i] != refs[i]] or ['afterwards: %s' % ', '.join(
                    (EPILOGUE + ('library state',))[i - 2] for i in range(2, len(refs)) if digs[i] != refs[i])]
                rec['observed'] = shown
            out.append(rec)
        except runner.CheckerError as e:
            if 'Deadlock' not in str(e):
                raise
            out.append({'start': start, 'switches': list(switches), 'bad': True, 'deadlock': str(e)[-200:], 'steps': [0, 0], 'preemptions': 0})
    return (a, b, gran, status, steps, out) + ((task[5],) if len(task) > 5 else ())


def plan_schedules(tier):
    """list of (a, b, gran, bound)"""
    q = tier == 'quick'
    plan = []
    for i, (a, b) in enumerate(PAIRS_SMALL):
        plan.append((a, b, 'line' if (not q or i in (0, 4)) else 'call', 1))
    for (a, b) in PAIRS_SAVE:
        heavy = (a, b) in (('make_1h', 'make_1h_other'), ('iter_verbose_v2_a', 'iter_verbose_v2_b'))
        if q and (a, b) == ('iter_verbose_v2_a', 'iter_verbose_v2_b'):
            continue            # quick tier: explored at 'shared' / 'sharedw' granularity only (below); thorough: also at call granularity
        plan.append((a, b, 'line' if ((not q and not heavy) or (a, b) in PROLOGUE) else 'call', 1))
    for (a, b, bound) in PAIRS_SHARED:
        plan.append((a, b, 'shared', bound if q else 2))
    # 'sharedw': the shared-access points plus the six line events that follow each of them in the same frame (an object fetched from
    # shared state and then used through a local name), same-shape pairs, p = 1
    for (a, b) in (('make_1h', 'make_1h_other'), ('make_m1_numeric', 'make_m1_other'), ('iter_verbose_v2_a', 'iter_verbose_v2_b'),
                   ('ppm_small_a', 'ppm_small_b'), ('make_7_version', 'make_8_version')):
        plan.append((a, b, 'sharedw', 1))
    for (a, b) in PRIOR:
        plan.append((a, b, 'shared', 1 if q else 2))
    for (a, b, fname) in PAIRS_FILE:
        plan.append((a, b, 'line@' + fname, 1 if q else 2))
    if not q:
        for (a, b) in PAIRS_LARGE:
            plan.append((a, b, 'call', 1))
        for (a, b) in PAIRS_SMALL[:2]:
            plan.append((a, b, 'opcode', 1))
        plan = [x for x in plan if x != ('fail_mode', 'make_m1_numeric', 'line', 1)]         # (contained in the p <= 2 entry)
        plan.append(('fail_mode', 'make_m1_numeric', 'line', 2))
        plan.append(('fail_mode', 'ppm_small_a', 'call', 2))
    return plan


# ------------------------------------------------------------------------------------------- idempotence (E-space)
def gen_cases(tier):
    for v in T.ORDER:
        for lvl in T.levels_of(v):
            yield ('idem-cell', v, lvl)
    for v, lvl, mode, n in S.boundaries():
        if tier == 'quick' and not (T.is_micro(v) or v <= 10 or v in (26, 27, 40)):
            continue
        yield ('idem-bnd', v, lvl, mode, n)


def idem(content, kw, acc, case):
    try:
        q1 = segno.make(content, **kw)
    except ValueError:
        acc.eval(case, nontrivial=False, outcome='refused')
        return
    try:
        q2 = segno.make(content, version=q1.version, error=q1.error, mask=q1.mask, boost_error=False,
                        **{k: v for k, v in kw.items() if k in ('mode', 'encoding', 'eci')})
        same = q2.matrix == q1.matrix and (q2.version, q2.error, q2.mask) == (q1.version, q1.error, q1.mask)
        why = 'matrix differs'
    except Exception as e:
        same, why = False, 'raised %s: %s' % (C.exc_name(e), str(e)[:60])
    q3 = segno.make(content, **kw)
    acc.eval(case, nontrivial=True, outcome=(q1.designator, q1.mask, same), state=(q1.designator, q1.mask))
    acc.count('idempotence_checks')
    if not same:
        acc.violation('not-idempotent', 're-encoding %r with the chosen version=%r, error=%r, mask=%r, boost_error=False: %s'
                      % (content if len(repr(content)) < 40 else '...', q1.version, q1.error, q1.mask, why), case)
    if q3.matrix != q1.matrix:
        acc.violation('not-deterministic', 'two identical calls returned different matrices (%r)' % (kw,), case)


def run_case(case, acc):
    kind = case[0]
    if kind == 'idem-cell':
        _, v, lvl = case
        for mode in ('numeric', 'byte'):
            if not T.mode_supported(mode, v):
                continue
            n = max(1, C.max_count(mode, v, lvl) // 3)
            content = C.content_of(mode, n, 1)
            for kw in ({}, {'error': lvl} if lvl else {}, {'version': v}, {'micro': False}):
                idem(content, dict(kw), acc, ('idem1', content, kw))
    elif kind == 'idem-bnd':
        _, v, lvl, mode, n = case
        for k in (n, n + 1):
            content, parts, eb = S.content_for(mode, k)
            kw = {'mode': 'hanzi'} if mode == 'hanzi' else {}
            if lvl:
                kw['error'] = lvl
            idem(content, kw, acc, ('idem1', content, kw))
    elif kind == 'idem1':
        idem(case[1], dict(case[2]), acc, case)
    else:
        raise ValueError(kind)


# ------------------------------------------------------------------------------------------- driver
def main(tier, seed, jobs, t0):
    q = tier == 'quick'
    acc = runner.Agg()
    extra = {}
    # pristine pool: workers are forked now, before this process executes any library operation
    ctx = mp.get_context('fork')
    pool = ctx.Pool(jobs)
    phase = {}
    tp = time.time()
    try:
        refs_by_seed = fresh_refs()
        phase['fresh_references_s'] = round(time.time() - tp, 1); tp = time.time()
        refs = {}
        for name, d in refs_by_seed.items():
            if len(set(d.values())) != 1:
                acc.violation('hash-seed-dependent/%s' % name, 'operation %s gives different results under PYTHONHASHSEED %r' % (name, d), ('hist', [name]))
            refs[name] = (d[0],)
        s0 = hist.library_state_hash()
        states = {s0}
        # --- E-hist 1: state graph BFS (fork per transition from a process that is in the source state)
        frontier = [()]
        seen_hist = {s0: ()}
        transitions = 0
        depth_bound = 2 if q else 3
        max_depth = 0
        while frontier:
            batch = [h + (op,) for h in frontier for op in O.OPS]
            results = []
            for chunk in pool.imap_unordered(_hist_task, [batch[i:i + 8] for i in range(0, len(batch), 8)]):
                results.extend(chunk)
            frontier = []
            for ops, st, res in results:
                transitions += 1
                judge_history(ops, st, res, refs, acc, s0, states)
                new = res[-1]['state']
                if new not in seen_hist:
                    seen_hist[new] = ops
                    if len(ops) < depth_bound:
                        frontier.append(ops)
                    max_depth = max(max_depth, len(ops))
        phase['bfs_s'] = round(time.time() - tp, 1); tp = time.time()
        extra['bfs_states'] = len(seen_hist)
        extra['bfs_transitions'] = transitions
        extra['bfs_max_depth_with_new_state'] = max_depth
        extra['bfs_complete_for_all_depths'] = len(seen_hist) == 1
        extra['non_initial_states'] = {k: list(v) for k, v in list(seen_hist.items())[1:6]}
        # --- E-hist 2: explicit histories (no reliance on the state hash)
        hists = [p for p in itertools.product(O.OPS, repeat=2)]
        if not q:
            hists += [p for p in itertools.product(CORE, repeat=3)]
        random.Random(seed).shuffle(hists)
        nh = 0
        for chunk in pool.imap_unordered(_hist_task, [hists[i:i + 6] for i in range(0, len(hists), 6)]):
            for ops, st, res in chunk:
                nh += 1
                judge_history(ops, st, res, refs, acc, s0, states)
        extra['explicit_histories'] = nh
        phase['explicit_histories_s'] = round(time.time() - tp, 1); tp = time.time()
        # --- E-hist 3: long histories.  The same several thousand calls in three different orders, each order in its own child of the
        # pristine process: every call's result must not depend on where in the history it is made (bounded caches, eviction, counters)
        orders = ('forward', 'reverse') if q else ('forward', 'reverse', 'interleaved')
        longres = {}
        for order, (st, res) in pool.imap_unordered(_long_task, [(tier, o) for o in orders]):
            if st != 'ok':
                raise runner.CheckerError('long history %s crashed: %s' % (order, res))
            longres[order] = res
        items = long_contents(tier)
        base = longres['forward']
        nlong = 0
        for order in orders:
            nlong += len(longres[order])
            for i, d in longres[order].items():
                acc.evals += 1
                if d != base[i] or d.startswith('EXC'):
                    acc.violation('history-dependent/long-history', 'make(%r) as call number %d of the %s history of %d calls gives %s, in the forward history %s'
                                  % (items[i][0], (i if order == 'forward' else -1), order, len(items), d[:60], base[i][:60]), ('longhist', order, i))
        extra['long_history_calls'] = nlong
        extra['long_history_orders'] = list(orders)
        acc.ctr['long_history_calls'] = nlong
        phase['long_histories_s'] = round(time.time() - tp, 1); tp = time.time()
        extra['history_length_bound'] = 2 if q else 3
        if len(states) == 1:
            acc.sample({'E-hist': 'every one of the %d operations maps the initial state S0 to S0 (self-loops): reachable state set {S0}' % len(O.OPS)})
        acc.sample({'history': list(hists[0]), 'oracle': 'observation digests equal the fresh-interpreter references'})
        # --- E-sched
        plan = plan_schedules(tier)
        sched_total = 0
        sched_detail = []
        outcomes = set()
        tp = time.time()
        profiles = pool.map(_profile_task, plan, chunksize=1)
        phase['schedule_profiles_s'] = round(time.time() - tp, 1); tp = time.time()
        tasks = []
        per_pair = {}
        for pi, ((a, b, gran, bound), (status, prefs, steps, _s2)) in enumerate(zip(plan, profiles)):
            if status != 'ok':
                acc.violation('thread-unstable/%s+%s' % (a, b), 'pair (%s, %s): even the two non-preemptive schedules disagree with the sequential '
                              'references or with each other (steps %r)' % (a, b, steps), ('sched', a, b, gran, 0, []))
            steps = tuple(max(x, y) for x, y in zip(steps, _s2))
            if min(steps) == 0:
                raise runner.CheckerError('pair %s/%s at %s granularity: a thread has no scheduling point (%r) - nothing would be explored' % (a, b, gran, steps))
            allsch = list(sched.schedules(steps, bound))
            if q and (a, b) in SAME_SHAPE:
                # quick tier: both threads run the same operation on different data; only thread 0 is preempted (the mirrored half is
                # the same set of interleavings up to renaming the data) - the thorough tier runs both halves
                allsch = [sc for sc in allsch if sc[0] == 0 or not sc[1]]
            random.Random(seed).shuffle(allsch)
            size = max(1, min(100, len(allsch) // (jobs * 2) or 1))
            for i in range(0, len(allsch), size):
                tasks.append((a, b, gran, allsch[i:i + size], prefs, pi))
            per_pair[pi] = {'pair': [a, b], 'granularity': gran, 'preemption_bound': bound, 'scheduling_points': list(steps),
                                      'schedules': 0, 'failing': 0, 'expected': len(allsch)}
        random.Random(seed).shuffle(tasks)
        for (a, b, gran, _st, _steps, recs, pi) in pool.imap_unordered(_sched_task, tasks):
            pp = per_pair[pi]
            for rec in recs:
                pp['schedules'] += 1
                acc.evals += 1
                outcomes.add((a, b, rec['bad']))
                if rec['bad']:
                    pp['failing'] += 1
                    key = 'thread-interference/%s+%s' % (a, b)
                    msg = ('threads (%s || %s), %s granularity, start=%d, preemption points %r: %s'
                           % (a, b, gran, rec['start'], rec['switches'],
                              rec.get('deadlock') or ('result of thread(s) %r differs from the sequential reference; replayed twice identically: %r'
                                                      % (rec.get('which'), rec.get('replay_identical')))))
                    acc.violation(key, msg, ('sched', a, b, gran, rec['start'], rec['switches']), obs=rec.get('observed'))
        for pp in per_pair.values():
            if pp['schedules'] != pp.pop('expected'):
                raise runner.CheckerError('pair %r: executed %d schedules, the enumeration predicts another number' % (pp['pair'], pp['schedules']))
            sched_total += pp['schedules']
            sched_detail.append(pp)
        phase['schedules_s'] = round(time.time() - tp, 1); tp = time.time()
        extra['schedules'] = sched_total
        extra['phase_seconds'] = phase
        extra['schedule_pairs'] = sched_detail
        acc.sample({'schedule': {'pair': list(plan[0][:2]), 'start': 0, 'preemption_points': [17]}, 'oracle': 'both thread results equal the sequential references'})
        acc.states |= {runner.h8(s) for s in states}
        acc.ctr['explicit_histories'] = nh
        acc.ctr['bfs_transitions'] = transitions
        acc.ctr['schedules'] = sched_total
    finally:
        pool.close()
        pool.join()
    # --- E-space: idempotence
    me = sys.modules[__name__]
    agg2 = runner.explore(me, tier, seed, jobs)
    acc.merge(agg2)
    for (a, b, bad) in sorted(outcomes):
        acc.outcomes.add(runner.h8((a, b, bad)))
    extra['states'] = len(states)
    extra['transitions'] = extra['bfs_transitions'] + acc.ctr.get('history_steps', 0) + extra['schedules']
    extra['traces_validated_against_impl'] = extra['explicit_histories'] + extra['schedules'] + extra['bfs_transitions']
    return runner.finish(me, tier, seed, acc, t0, extra_cov=extra)


def obligations(agg, tier):
    if agg.ctr.get('explicit_histories', 0) < len(O.OPS) ** 2:
        yield 'explicit histories executed: %d' % agg.ctr.get('explicit_histories', 0)
    if agg.ctr.get('schedules', 0) < 10000:
        yield 'schedules executed: %d' % agg.ctr.get('schedules', 0)
    if agg.ctr.get('idempotence_checks', 0) < 1000:
        yield 'idempotence checks: %d' % agg.ctr.get('idempotence_checks', 0)


def replay(path):
    v = json.load(open(path))
    case = runner.dec(v['case'])
    if case[0] == 'hist':
        ops = tuple(case[1])
        refs = {n: (d[0],) for n, d in fresh_refs(seeds=(0,)).items()}
        st, res = hist.run_forked(lambda: run_history(ops))
        acc = runner.Acc()
        ok = judge_history(ops, st, res, refs, acc, None, set())
        for vs in acc.viol.values():
            for x in vs:
                print('VIOLATION property=C15 replay=%s key=%s %s' % (path, x['key'], x['msg']))
        if ok:
            print('replay: history %r reproduces the fresh-interpreter results' % (ops,))
        return 0 if ok else 1
    if case[0] == 'sched':
        _, a, b, gran, start, switches = case
        status, refs, steps, _ = pair_profile(a, b, gran)
        runs = []
        for _ in range(2):
            digs, st, pre, shown = forked(_exec_child, a, b, gran, start, tuple(switches))
            runs.append((digs, st))
        if runs[0] != runs[1]:
            print('CHECKER-ERROR: replaying the schedule twice gave different observations (uncaptured nondeterminism)')
            return 2
        if runs[0][0] != refs:
            print('VIOLATION property=C15 replay=%s key=thread-interference threads (%s || %s) start=%d preemptions %r: results differ from '
                  'the sequential references (identical in two replays)' % (path, a, b, start, list(switches)))
            return 1
        print('replay: schedule reproduces the sequential results')
        return 0
    if case[0] == 'longhist':
        _, order, i = case
        tier = 'quick'
        res = {o: hist.run_forked(lambda o=o: _long_child(tier, o))[1] for o in ('forward', order)}
        bad = [k for k in res['forward'] if res['forward'][k] != res[order][k] or res[order][k].startswith('EXC')]
        if bad:
            print('VIOLATION property=C15 replay=%s key=history-dependent/long-history %d calls of the %s history differ from the forward history (first: call %d)'
                  % (path, len(bad), order, bad[0]))
            return 1
        print('replay: both orders agree')
        return 0
    return runner.replay(sys.modules[__name__], path)
