"""Operation menu for C15 (E-hist / E-sched): ~35 real API calls with fixed small arguments.
Argument objects are module-level and shared between calls on purpose.

Run as a script it executes ONE operation first thing in a fresh interpreter and prints the observation hash
(the differential oracle's reference):  python -m checks.c15ops <opname>"""
import contextlib
import decimal
import hashlib
import io
import os
import re
import shutil
import sys
import tempfile

if __name__ == '__main__':
    _here = os.path.dirname(os.path.dirname(os.path.abspath(__file__)))
    sys.path.insert(0, _here)
    sys.path.insert(0, os.path.realpath(os.environ.get('VERIF_REPO', '/repo')))

import segno
import segno.cli
from segno import helpers

TS = [(re.compile(rb'%%CreationDate: [^\n]*'), b'%%CreationDate: X'), (re.compile(rb'/CreationDate\(D:[^)]*\)'), b'/CreationDate(D:X)'),
      (re.compile(rb'% Date:     [^\n]*'), b'% Date:     X')]


def mask_ts(b):
    for rx, rep in TS:
        b = rx.sub(rep, b)
    return b


# shared argument objects (must never be modified by a call)
PARTS = ['12', 'AB', ('cd', 4, 'utf-8'), 7]
KANJI = '点漢字'
BYTES = b'\x00\xff\x81\x40'
DARK = (10, 20, 30)
LIGHT = (200, 210, 220, 128)
CMAP = {'finder_dark': 'darkblue', 'data_light': (250, 250, 240), 'alignment_dark': '#336699', 'quiet_zone': None}
CMAP2 = {'light': '#fff', 'quiet_zone': 'white', 'dark': '#000', 'finder_dark': 'black', 'data_dark': 'navy'}     # one colour in two notations
MERGE_PARTS = ['AB', 'CD']
LIST_ARG = ['ABC', '123', 'abc']
SEQ_TEXT = 'ABCDEFGHIJKLMNOPQRSTUVWXYZ0123456789ABCDEFGHIJKLMNOPQRSTUVWXYZ'
ARGS = {'LIST_ARG': LIST_ARG, 'MERGE_PARTS': MERGE_PARTS, 'PARTS': PARTS, 'KANJI': KANJI, 'BYTES': BYTES, 'DARK': DARK, 'LIGHT': LIGHT, 'CMAP': CMAP, 'CMAP2': CMAP2}


def canon_qr(q):
    return ('QR', tuple(bytes(r) for r in q.matrix), q.version, q.error, q.mask, q.mode, q.designator, q.is_micro)


def canon(x):
    if isinstance(x, segno.QRCode):
        return canon_qr(x)
    if isinstance(x, segno.QRCodeSequence):
        return ('SEQ',) + tuple(canon_qr(q) for q in x)
    if isinstance(x, (bytes, bytearray)):
        return ('B', mask_ts(bytes(x)))
    if isinstance(x, str):
        return ('S', mask_ts(x.encode('utf-8')))
    if isinstance(x, (list, tuple)):
        return tuple(canon(i) for i in x)
    return repr(x)


def _save(q, kind, **kw):
    out = io.StringIO() if kind in ('eps', 'txt', 'ans', 'tex', 'xbm', 'xpm') else io.BytesIO()
    before = canon_qr(q)
    q.save(out, kind=kind, **kw)
    if canon_qr(q) != before:
        raise AssertionError('serialising changed the symbol')
    return out.getvalue()


def _shared():
    return segno.make('Shared symbol 123', error='Q', version=3, mask=2)


def _small():
    return segno.make('4711', version='M2', error='L', mask=1)


def _cli(argv):
    out = io.StringIO()
    with contextlib.redirect_stdout(out), contextlib.redirect_stderr(io.StringIO()):
        try:
            rc = segno.cli.main(argv)
        except SystemExit as e:
            rc = 'exit %r' % e.code
    return (rc, out.getvalue())


def _cli_file(argv, ext, content):
    d = tempfile.mkdtemp(prefix='verif-c15-')
    try:
        path = os.path.join(d, 'out.' + ext)
        res = _cli(argv + ['--output', path, content])
        data = open(path, 'rb').read() if os.path.exists(path) else None
        return (res, data)
    finally:
        shutil.rmtree(d, ignore_errors=True)


def _terminal(q, **kw):
    out = io.StringIO()
    q.terminal(out=out, **kw)
    return out.getvalue()


class BrokenStream:
    """a writable object whose write() fails after a few calls (a full disk, a closed socket)"""
    def __init__(self, fail_after):
        self.n, self.fail_after = 0, fail_after

    def write(self, data):
        self.n += 1
        if self.n > self.fail_after:
            raise OSError('stream broken')
        return len(data)


def _broken(kind, fail_after):
    q = _small()
    before = canon_qr(q)
    try:
        q.save(BrokenStream(fail_after), kind=kind)
        res = 'written'
    except OSError:
        res = 'OSError'
    return (res, canon_qr(q) == before, tuple(len(r) for r in q.matrix))


def _verbose_reuse():
    """symbols created, iterated (verbose) and dropped one after the other: a later symbol can occupy the address of a dead one"""
    out = []
    for k in range(4):
        for content, ver, mask in (('alignment', 2, 0), ('12345', 3, 1), ('ABC', 1, 2), ('xyz', 2, 3), ('4711', 'M2', 1), ('AB', 'M4', 0)):
            q = segno.make(content, version=ver, mask=mask)
            out.append(tuple(q.matrix_iter(verbose=True)))
            out.append(tuple(q.matrix_iter(scale=2, border=1)))
            del q
    return out


SHARED = [None]


def prologue_shared():
    SHARED[0] = segno.make('Shared between threads', version=2, error='M', mask=3)
    return canon_qr(SHARED[0])


OPS = {
    'make_m1_numeric': lambda: segno.make('12345'),
    'make_m1_other': lambda: segno.make('98760'),
    'make_m2_alnum': lambda: segno.make('AB-12'),
    'make_m3_byte': lambda: segno.make('abc'),
    'make_m3_kanji': lambda: segno.make(KANJI),
    'make_1h': lambda: segno.make('Hello', error='H', micro=False),
    'make_1h_other': lambda: segno.make('World', error='H', micro=False),
    'make_2_align': lambda: segno.make('Version two has an alignment', version=2),
    'make_7_version': lambda: segno.make('seven', version=7, error='M', mask=3),
    'make_8_version': lambda: segno.make('eight', version=8, error='Q', mask=5),
    # the same payload requested in different ways (state keyed by the payload only would mix them up)
    'same_digits_auto': lambda: segno.make('2024', micro=False),
    'same_digits_byte': lambda: segno.make('2024', micro=False, mode='byte'),
    'same_digits_alnum_q': lambda: segno.make('2024', micro=False, mode='alphanumeric', error='Q', boost_error=False),
    'same_kanji_auto': lambda: segno.make(KANJI, micro=False),
    'same_kanji_byte_utf8': lambda: segno.make(KANJI, micro=False, mode='byte', encoding='utf-8'),
    'same_kanji_eci': lambda: segno.make(KANJI, micro=False, mode='byte', encoding='utf-8', eci=True, version=3, mask=1),
    'make_parts': lambda: segno.make(PARTS),
    'make_eci': lambda: segno.make('\xe4\xf6\xfc', encoding='utf-8', eci=True),
    'make_hanzi': lambda: segno.make('书读', mode='hanzi'),
    'make_bytes': lambda: segno.make(BYTES, micro=False),
    'make_boost_off': lambda: segno.make('boost', boost_error=False, error='L'),
    'seq_version': lambda: segno.make_sequence(SEQ_TEXT, version=1, error='M'),
    'seq_count': lambda: segno.make_sequence(SEQ_TEXT, symbol_count=3),
    'seq_count_200': lambda: segno.make_sequence('Structured Append 0123456789 ' * 7, symbol_count=2),
    'seq_count_tiny': lambda: segno.make_sequence('ab12', symbol_count=2),
    'save_png': lambda: _save(_shared(), 'png', scale=2),
    'save_png_palette': lambda: _save(_shared(), 'png', dark=DARK, light=LIGHT),
    'save_png_transparent': lambda: _save(_shared(), 'png', light=None, border=1),
    'save_png_colorful': lambda: _save(_shared(), 'png', **CMAP),
    'save_ppm_colormap': lambda: _save(_shared(), 'ppm', dark=DARK, finder_dark='red'),
    'save_ppm_colormap_b': lambda: _save(_shared(), 'ppm', dark='navy', finder_dark='green', data_light='#eee'),
    'save_svg': lambda: _save(_shared(), 'svg', scale=2.5, light='#eee'),
    'save_svg_colorful': lambda: _save(_shared(), 'svg', **CMAP),
    'save_eps': lambda: _save(_shared(), 'eps', dark=DARK),
    'save_pdf': lambda: _save(_shared(), 'pdf', scale=0.5, light='white'),
    'save_pam': lambda: _save(_shared(), 'pam', light=None),
    'save_txt_xbm_xpm_tex': lambda: [_save(_shared(), k) for k in ('txt', 'xbm', 'xpm', 'tex', 'pbm', 'ans')],
    'terminal': lambda: _terminal(_shared(), border=1),
    'terminal_compact': lambda: _terminal(_shared(), compact=True),
    'matrix_iter': lambda: tuple(_shared().matrix_iter(scale=2, border=1)),
    'matrix_iter_verbose': lambda: tuple(_shared().matrix_iter(verbose=True)),
    'data_uris': lambda: [_shared().svg_data_uri(), _shared().png_data_uri(scale=2), _shared().svg_inline(dark='red')],
    'helper_wifi': lambda: helpers.make_wifi('net;work', password='p:w', security='WPA'),
    'helper_epc': lambda: helpers.make_epc_qr('Name', 'DE33100205000001194700', 12.3, text='caf\xe9'),
    'helper_epc_b': lambda: helpers.make_epc_qr('Fran\xe7ois Other', 'FR1420041010050500013M02606', 9999.99, reference='RF18539007547034', bic='BNPAFRPPXXX', purpose='GDDS'),
    'helper_wifi_b': lambda: helpers.make_wifi('other\\net', password='"quoted"', security='WEP', hidden=True),
    'helper_mecard': lambda: helpers.make_mecard('Mustermann,Max', email=['a@b.c', 'd@e.f'], phone='+49 30 1', pobox='7', city='Berlin', zipcode='10115', country='DE'),
    'helper_mecard_b': lambda: helpers.make_mecard('Doe,Jane', reading='doe', url=['http://x.y/;z'], memo='a:b', roomno='3', prefecture='P', houseno='9'),
    'helper_vcard_b': lambda: helpers.make_vcard('Roe;Richard', 'R. Roe', phone=['1', '2'], org='ACME, Inc.', street='Main St 1', city='X', zipcode='Z', title='Dr'),
    'helper_email': lambda: helpers.make_email(['a@b.c', 'd@e.f'], cc='c@c.c', subject='S & T', body='line1\r\nline2'),
    'helper_geo': lambda: helpers.make_geo(38.8976763, -77.0365297),
    'iter_verbose_reuse': lambda: _verbose_reuse(),
    'helper_epc_tie': lambda: helpers.make_epc_qr('Name', 'DE33100205000001194700', decimal.Decimal('2.665'), text='tie'),
    'helper_epc_tie_b': lambda: helpers.make_epc_qr('Name', 'DE33100205000001194700', decimal.Decimal('0.125'), text='tie'),
    'save_svg_twins': lambda: _save(_shared(), 'svg', **CMAP2),
    'save_ppm_twins': lambda: _save(_shared(), 'ppm', **CMAP2),
    'save_png_twins': lambda: _save(_shared(), 'png', **CMAP2),
    'cli_save_png': lambda: _cli_file(['--version', '2', '--scale', '3', '--dark', 'darkblue', '--light', '#eee'], 'png', 'CLI PNG'),
    'cli_save_svg': lambda: _cli_file(['--version', '2', '--scale', '2.5', '--border', '1', '--dark', '#336699'], 'svg', 'CLI SVG'),
    'helper_vcard': lambda: helpers.make_vcard_data('Doe;John', 'John Doe', email=['a@b.c', 'd@e.f'], memo='a\nb'),
    'cli_terminal': lambda: _cli(['--version', '1', '--border', '0', 'CLI']),
    'ppm_small_a': lambda: _save(_small(), 'ppm', border=0, dark=DARK, finder_dark='red'),
    'ppm_small_b': lambda: _save(_small(), 'ppm', border=0, dark='navy', finder_dark='green', data_light='#eee'),
    'png_small': lambda: _save(_small(), 'png', border=1, dark=DARK, light=LIGHT),
    'svg_small': lambda: _save(_small(), 'svg', border=1, scale=2.5, light='#eee'),
    'seq_small': lambda: segno.make_sequence('ABCDEFGHIJKLMNOPQRSTUVWXYZ012345', version=1, error='L', mask=4),
    'eps_float_tuple': lambda: _save(_small(), 'eps', dark=(1.0, 0.0, 0.0), light=(1.0, 1.0, 1.0)),
    'eps_int_tuple': lambda: _save(_small(), 'eps', dark=(1, 0, 0), light=(1, 1, 1)),
    'pdf_float_tuple': lambda: _save(_small(), 'pdf', dark=(0.0, 0.0, 1.0), compresslevel=0),
    'pdf_int_tuple': lambda: _save(_small(), 'pdf', dark=(0, 0, 1), compresslevel=0),
    'svg_alpha_float': lambda: _save(_small(), 'svg', dark=(255, 0, 0, 1.0)),
    'svg_alpha_int': lambda: _save(_small(), 'svg', dark=(255, 0, 0, 1)),
    'make_eci_latin': lambda: segno.make('a' * 17, encoding='iso-8859-1', eci=True, mode='byte', error='L', boost_error=False),
    'make_eci_utf8': lambda: segno.make('a' * 17, encoding='utf-8', eci=True, mode='byte', error='L', boost_error=False),
    'make_ab': lambda: segno.make('AB', micro=False),
    'make_ab_cd': lambda: segno.make(MERGE_PARTS, micro=False),
    'make_q_auto': lambda: segno.make('12345', error='q'),
    'make_h_auto': lambda: segno.make('Segno', error='h'),
    'iter_verbose_v2_a': lambda: tuple(segno.make('alignment', version=2, mask=0).matrix_iter(verbose=True)),
    'iter_verbose_v2_b': lambda: tuple(segno.make('ALIGNMENT', version=2, mask=1).matrix_iter(verbose=True, border=0)),
    'make_int_1': lambda: segno.make(1),
    'make_bool_true': lambda: segno.make(True),
    'fail_eci_utf16': lambda: segno.make('ab', encoding='utf-16', eci=True),
    'fail_eci_koi8': lambda: segno.make('ab', encoding='koi8-r', eci=True),
    'broken_stream_tex': lambda: [_broken('tex', k) for k in (2, 5, 9)],
    'broken_stream_svg_eps_pdf': lambda: [_broken(k, 0) for k in ('svg', 'eps', 'pdf', 'png', 'pbm', 'txt')] + [_broken('eps', 6), _broken('txt', 3), _broken('xpm', 7)],
    'make_section_sign': lambda: segno.make('\xa7\xb0\xb1\xd7\xf7'),
    'make_yen_pound': lambda: segno.make('\xa3 \xa5', micro=False),
    'make_greek': lambda: segno.make('\u03b1\u03b2\u03b3'),
    'make_list_args': lambda: (segno.make(LIST_ARG), list(LIST_ARG)),
    'shared_svg': lambda: _save(SHARED[0], 'svg') if SHARED[0] else 'no-shared',
    'shared_eps': lambda: _save(SHARED[0], 'eps') if SHARED[0] else 'no-shared',
    'shared_png': lambda: _save(SHARED[0], 'png') if SHARED[0] else 'no-shared',
    'shared_matrix': lambda: [canon_qr(SHARED[0]) for _ in range(40)] if SHARED[0] else 'no-shared',
    'shared_iter': lambda: tuple(SHARED[0].matrix_iter(border=0)) if SHARED[0] else 'no-shared',
    'fail_overflow': lambda: segno.make('1' * 8000),
    'fail_colour': lambda: _save(_shared(), 'png', dark='nope'),
    'fail_mode': lambda: segno.make('abc', mode='numeric'),
    'fail_kind': lambda: _save(_shared(), 'xyz'),
    'fail_seq': lambda: segno.make_sequence('A' * 100, version='M2'),
}
QUICK_HIST_OPS = list(OPS)


def observe(name):
    """Runs one operation; returns (canonical observation, live result or None)."""
    try:
        r = OPS[name]()
        return canon(r), r
    except Exception as e:
        return ('EXC', type(e).__name__, str(e)[:200]), None


def digest(obj):
    return hashlib.blake2b(repr(obj).encode('utf-8', 'backslashreplace'), digest_size=12).hexdigest()


def args_digest():
    return digest(repr(ARGS))


if __name__ == '__main__':
    for nm in sys.argv[1:]:
        obs, _ = observe(nm)
        print(nm, digest(obs))
