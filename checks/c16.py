"""C16 - helper factories emit payloads whose fields parse back to the given values.

Independent parsers (MeCard/WIFI splitter + unescaper, vCard content-line reader, RFC 6068 mailto / RFC 5870 geo
checkers, EPC069-12 line reader) applied to payloads built from ALL strings of length <= n over the delimiter / escape
alphabet {a ; : , \\ " CR LF space}, placed in one field at a time and in field pairs."""
import datetime
import decimal
import itertools
import re
from urllib.parse import unquote

from qrref import tables as T
from . import common as C
from .common import segno
from segno import helpers

ID = 'C16'
LEVEL = 'exploration'
TITLE = 'Helper factories emit payloads whose fields parse back to the given values'
RULE = ('all strings of length <= n over the 9-character alphabet {a ; : , backslash " CR LF space} in every text field of make_wifi / '
        'make_mecard / make_vcard (one field at a time; pairs of fields with length <= 2 values), multi-valued fields with 0/1/2 values; geo '
        'coordinates and mailto parameter combinations; EPC: every documented limit +-1, all eight encodings by name and number, amounts at '
        'both range ends; each payload parsed by an independent parser and compared with the supplied values; factory symbols decoded by qrref. '
        'non-trivial = payload produced and parsed (or refusal expected)')
BOUNDS = {'quick': 'n = 4', 'thorough': 'n = 5; all field pairs'}
ASSUMPTIONS = ['MeCard N/ADR are single fields whose comma-separated components are structure by specification',
               'closed-domain values (security, dates) are drawn from their domain; EPC fields compared modulo the blanks segno strips']
CHUNK = 1
A = ['a', ';', ':', ',', '\\', '"', '\r', '\n', ' ']


def strings(n, minlen=1):
    for k in range(minlen, n + 1):
        for t in itertools.product(A, repeat=k):
            yield ''.join(t)


def split_unescaped(s, sep=';'):
    out, cur, i = [], '', 0
    while i < len(s):
        ch = s[i]
        if ch == '\\' and i + 1 < len(s):
            cur += s[i:i + 2]
            i += 2
            continue
        if ch == sep:
            out.append(cur)
            cur = ''
            i += 1
            continue
        cur += ch
        i += 1
    out.append(cur)
    return out


def unescape(v):
    return re.sub(r'\\(.)', r'\1', v, flags=re.S)


def keyval(f):
    i = 0
    while i < len(f):
        if f[i] == '\\':
            i += 2
            continue
        if f[i] == ':':
            return f[:i], unescape(f[i + 1:])
        i += 1
    return f, None


def parse_fields(body):
    """body after the 'WIFI:' / 'MECARD:' prefix -> (list of (key, value), structural problem or None)"""
    raw = split_unescaped(body)
    # empty fields may only terminate the payload
    while raw and raw[-1] == '':
        raw.pop()
    if any(f == '' for f in raw):
        return None, 'empty field inside the payload'
    return [keyval(f) for f in raw], None


def gen_cases(tier):
    n = 4 if tier == 'quick' else 5
    for first in A:
        yield ('wifi', first, n)
        yield ('mecard', first, n)
        yield ('vcard', first, n)
    yield ('pairs', tier)
    yield ('multi',)
    yield ('adr',)
    yield ('mailto-breaks',)
    yield ('long',)
    yield ('geo',)
    yield ('mailto',)
    yield ('epc',)
    yield ('epc-limits',)


def decode_ok(qr, payload_bytes, acc, case, what):
    if callable(qr):
        try:
            qr = qr()
        except Exception as e:
            acc.violation('symbol-exception/' + what, '%s factory raised %s: %s' % (what, C.exc_name(e), str(e)[:80]), case)
            return
    rep = C.read(qr)
    bad = [p for p in rep.problems if C.classify_problem(p) != 'remainder-bits']
    if bad or rep.payload != payload_bytes:
        acc.violation('symbol/' + what, '%s symbol does not decode to the payload: %s' % (what, bad[:1] or 'payload differs'), case)
    if qr.is_micro:
        acc.violation('symbol-micro/' + what, '%s returned a Micro QR symbol' % what, case)
    acc.count('symbols_decoded')


def exp_bytes(s):
    return C.expected_parts(s)[0][0]


def wifi_one(ssid, password, security, hidden, acc, symbol=False):
    case = ('wifi1', ssid, password, security, hidden)
    d = helpers.make_wifi_data(ssid, password=password, security=security, hidden=hidden)
    exp = []
    if security:
        exp.append(('T', security.upper() if security != 'nopass' else security))
    exp.append(('S', ssid))
    if password is not None:
        exp.append(('P', password))
    if hidden:
        exp.append(('H', 'true'))
    ok = d.startswith('WIFI:')
    kv, prob = parse_fields(d[5:]) if ok else (None, 'prefix')
    good = ok and prob is None and kv == exp and d.endswith(';')
    acc.eval(case, nontrivial=True, outcome=good, state=('wifi', len(ssid), password is None, security, hidden))
    acc.count('payloads')
    if not good:
        acc.violation('wifi-fields', 'make_wifi_data(%r, %r, %r, %r) = %r parses to %r (%s), supplied %r' % (ssid, password, security, hidden, d, kv, prob, exp), case)
    if symbol:
        decode_ok(lambda: helpers.make_wifi(ssid, password=password, security=security, hidden=hidden), exp_bytes(d), acc, case, 'wifi')


ME_KEYS = {'name': 'N', 'reading': 'SOUND', 'phone': 'TEL', 'videophone': 'TELAV', 'email': 'EMAIL', 'nickname': 'NICKNAME', 'url': 'URL',
           'memo': 'MEMO'}
ME_ORDER = ['name', 'reading', 'phone', 'videophone', 'email', 'nickname', 'birthday', 'url', 'adr', 'memo']
ADR = ('pobox', 'roomno', 'houseno', 'city', 'prefecture', 'zipcode', 'country')


def mecard_one(kw, acc, symbol=False):
    case = ('mecard1', kw)
    d = helpers.make_mecard_data(**kw)
    exp = []
    for f in ME_ORDER:
        if f == 'adr':
            comps = [kw.get(a) or '' for a in ADR]
            if any(comps):
                exp.append(('ADR', ','.join(comps)))
        elif f == 'birthday':
            b = kw.get('birthday')
            if b:
                exp.append(('BDAY', b.strftime('%Y%m%d') if hasattr(b, 'strftime') else b))
        else:
            v = kw.get(f)
            if f == 'name':
                exp.append(('N', v))
            elif v:
                for x in ((v,) if isinstance(v, str) else v):
                    exp.append((ME_KEYS[f], x))
    ok = d.startswith('MECARD:') and d.endswith(';;')
    kv, prob = parse_fields(d[7:]) if ok else (None, 'prefix/terminator')
    good = ok and prob is None and kv == exp
    acc.eval(case, nontrivial=True, outcome=good, state=('mecard', tuple(sorted(kw))))
    acc.count('payloads')
    if not good:
        acc.violation('mecard-fields', 'make_mecard_data(**%r) = %r parses to %r (%s), supplied %r' % (kw, d, kv, prob, exp), case)
    if symbol:
        decode_ok(lambda: helpers.make_mecard(**kw), exp_bytes(d), acc, case, 'mecard')


VC_SINGLE = [('org', 'ORG'), ('nickname', 'NICKNAME'), ('source', 'SOURCE'), ('memo', 'NOTE')]
VC_MULTI = [('email', 'EMAIL'), ('phone', 'TEL'), ('fax', 'TEL;TYPE=FAX'), ('videophone', 'TEL;TYPE=VIDEO'), ('cellphone', 'TEL;TYPE=CELL'),
            ('homephone', 'TEL;TYPE=HOME'), ('workphone', 'TEL;TYPE=WORK'), ('url', 'URL'), ('title', 'TITLE'), ('photo_uri', 'PHOTO;VALUE=uri')]
VC_ORDER = ['org', 'email', 'phone', 'fax', 'videophone', 'cellphone', 'homephone', 'workphone', 'url', 'title', 'photo_uri', 'nickname', 'adr',
            'birthday', 'geo', 'source', 'memo', 'rev']
VC_ADR = ('pobox', 'street', 'city', 'region', 'zipcode', 'country')


def vcard_one(kw, acc, symbol=False):
    case = ('vcard1', kw)
    d = helpers.make_vcard_data(**kw)
    names = ['BEGIN', 'VERSION', 'N', 'FN']
    single = dict(VC_SINGLE)
    multi = dict(VC_MULTI)
    for f in VC_ORDER:
        if f == 'adr':
            if any(kw.get(a) for a in VC_ADR):
                names.append('ADR')
        elif f == 'birthday':
            if kw.get('birthday'):
                names.append('BDAY')
        elif f == 'geo':
            if kw.get('lat') and kw.get('lng'):
                names.append('GEO')
        elif f == 'rev':
            if kw.get('rev'):
                names.append('REV')
        elif f in single:
            if kw.get(f):
                names.append(single[f])
        else:
            v = kw.get(f)
            if v:
                names += [multi[f]] * (1 if isinstance(v, str) else len(v))
    names.append('END')
    problems = []
    if not d.endswith('\r\n'):
        problems.append('payload does not end with CRLF')
    # RFC 2426 unfolding: a CRLF immediately followed by one white space continues the content line
    unfolded = re.sub('\r\n[ \t]', '', d)
    lines = unfolded.split('\r\n')[:-1]
    if any('\r' in ln or '\n' in ln for ln in lines):
        problems.append('bare CR or LF inside a content line')
    got = [ln.split(':', 1)[0] for ln in lines]
    if got != names:
        problems.append('content lines %r, one line per supplied value would be %r' % (got, names))
    if lines[:2] != ['BEGIN:VCARD', 'VERSION:3.0'] or lines[-1:] != ['END:VCARD']:
        problems.append('BEGIN/VERSION/END frame')
    # single-valued text fields: the value must come back after removing the escapes (CR dropped, LF as \\n)
    if got == names:
        def unesc(v):
            return re.sub(r'\\(.)', lambda m: '\n' if m.group(1) in 'nN' else m.group(1), v, flags=re.S)
        for f, prop in (('displayname', 'FN'), ('org', 'ORG'), ('nickname', 'NICKNAME'), ('source', 'SOURCE'), ('memo', 'NOTE')):
            v = kw.get(f)
            # (values containing a backslash are not compared: segno does not escape it and RFC 2426 readers differ on a lone backslash -
            #  the statement only fixes the line structure; value recovery is checked where it is unambiguous)
            if isinstance(v, str) and v and '\\' not in v:
                vals = [ln.split(':', 1)[1] for ln in lines if ln.split(':', 1)[0] == prop]
                if len(vals) != 1 or unesc(vals[0]) != v.replace('\r', ''):
                    problems.append('%s value %r does not come back from %r' % (prop, v[:40], vals[:1]))
    if got == names and 'ADR' in names:
        comps = [kw.get(a) or '' for a in VC_ADR]
        if all(re.fullmatch(r'[A-Za-z0-9]*', c) for c in comps):
            # RFC 2426 3.2.1: post office box; extended address; street; locality; region; postal code; country
            want = ';'.join([comps[0], ''] + comps[1:])
            vals = [ln.split(':', 1)[1] for ln in lines if ln.split(':', 1)[0] == 'ADR']
            if vals != [want]:
                problems.append('ADR value %r, the supplied components in RFC 2426 order are %r' % (vals, want))
    acc.eval(case, nontrivial=True, outcome=not problems, state=('vcard', tuple(sorted(kw))))
    acc.count('payloads')
    if problems:
        acc.violation('vcard-lines', 'make_vcard_data(**%r): %s' % (kw, '; '.join(problems)[:300]), case)
    if symbol:
        decode_ok(lambda: helpers.make_vcard(**kw), exp_bytes(d), acc, case, 'vcard')


def run_case(case, acc):
    kind = case[0]
    if kind == 'wifi':
        _, first, n = case
        for i, rest in enumerate(itertools.chain([''], strings(n - 1))):
            s = first + rest
            sym = len(s) <= 2 or i % 11 == 0
            wifi_one(s, None, None, False, acc, symbol=sym)
            wifi_one(s, 'pw', 'WPA', False, acc)
            wifi_one('net', s, 'wep', True, acc, symbol=sym)
            wifi_one(s, s, 'nopass', False, acc)
    elif kind == 'mecard':
        _, first, n = case
        for i, rest in enumerate(itertools.chain([''], strings(n - 1))):
            s = first + rest
            sym = len(s) <= 2 or i % 11 == 0
            for f in ('name', 'reading', 'memo', 'nickname', 'email', 'phone', 'videophone', 'url'):
                kw = {'name': 'N'}
                kw[f] = s
                mecard_one(kw, acc, symbol=sym and f in ('name', 'memo'))
            for a in ('pobox', 'city', 'country'):
                mecard_one({'name': 'N', a: s}, acc)
    elif kind == 'vcard':
        _, first, n = case
        for i, rest in enumerate(itertools.chain([''], strings(n - 1))):
            s = first + rest
            sym = len(s) <= 2 or i % 11 == 0
            for f in ('name', 'displayname', 'org', 'memo', 'nickname', 'source', 'email', 'title', 'url', 'phone', 'city', 'street'):
                kw = {'name': 'Doe;John', 'displayname': 'JD'}
                kw[f] = s
                vcard_one(kw, acc, symbol=sym and f in ('memo', 'displayname'))
    elif kind == 'long':
        for n in (70, 76, 80, 149, 150, 151, 230, 400):
            for base in ('abcdefghij', 'ab,c;d:e', 'a b'):
                v = (base * 50)[:n]
                for f in ('displayname', 'org', 'memo', 'nickname', 'source'):
                    vcard_one({'name': 'Doe;John', 'displayname': 'JD', f: v}, acc, symbol=(f == 'memo'))
                for f in ('name', 'memo', 'reading'):
                    mecard_one({'name': 'N', f: v}, acc, symbol=(f == 'memo'))
                wifi_one(v[:32], v, 'WPA', False, acc, symbol=True)
    elif kind == 'pairs':
        vals = list(strings(2))
        for a in vals:
            for b in vals:
                wifi_one(a, b, 'WPA', False, acc)
                mecard_one({'name': a, 'memo': b}, acc)
        if case[1] == 'thorough':
            for a in vals:
                for b in vals:
                    mecard_one({'name': 'N', 'reading': a, 'nickname': b}, acc)
                    mecard_one({'name': 'N', 'city': a, 'country': b}, acc)
                    vcard_one({'name': a, 'displayname': b}, acc)
                    vcard_one({'name': 'N', 'displayname': 'D', 'org': a, 'memo': b}, acc)
    elif kind == 'multi':
        vals = [None, '', 'a', 'x;y', ['a'], ['a', 'b;c'], ('p:q', 'r\\s'), []]
        for f in ('email', 'phone', 'videophone', 'url'):
            for v in vals:
                mecard_one({'name': 'N', f: v}, acc, symbol=True)
        for f, _ in VC_MULTI:
            for v in vals:
                vcard_one({'name': 'N', 'displayname': 'D', f: v}, acc, symbol=True)
        # documented type "iterable of strings": one-shot iterables (generator, iterator, map) must give what a list gives
        for f in ('email', 'phone', 'videophone', 'url'):
            for items in (['a'], ['a', 'b;c'], ['x:y', 'z', 'w']):
                for mk in (lambda it: (x for x in it), iter, lambda it: map(str, it), tuple, set if len(items) == 1 else list):
                    oneshot_mecard(f, items, mk, acc)
        for f, _ in VC_MULTI[:4]:
            for items in (['a'], ['a', 'b;c']):
                for mk in (lambda it: (x for x in it), iter, lambda it: map(str, it)):
                    oneshot_vcard(f, items, mk, acc)
        d = datetime.date(2020, 2, 29)
        for b in (d, '20200229'):
            mecard_one({'name': 'N', 'birthday': b}, acc, symbol=True)
        for half in (dict(lat=1.5), dict(lng=-2.25), dict(lat=1.5, lng=None)):
            try:
                vcard_one(dict({'name': 'N', 'displayname': 'D'}, **half), acc)
            except ValueError:
                acc.count('vcard_half_geo_refused')        # (refusing an incomplete position is fine; emitting half a GEO line is not)
        for b in (d, '2020-02-29'):
            vcard_one({'name': 'N', 'displayname': 'D', 'birthday': b, 'rev': b, 'lat': 1.5, 'lng': -2.25, 'pobox': 'p', 'country': 'c;d'}, acc, symbol=True)
    elif kind == 'adr':
        # every subset of the address components, each with its own value: the position of a component identifies it
        for bits in range(1, 1 << len(ADR)):
            kw = {'name': 'N'}
            for i, a in enumerate(ADR):
                if bits >> i & 1:
                    kw[a] = '%s%d' % (a[:3], i)
            mecard_one(kw, acc, symbol=(bits % 17 == 0))
        for bits in range(1, 1 << len(VC_ADR)):
            kw = {'name': 'N', 'displayname': 'D'}
            for i, a in enumerate(VC_ADR):
                if bits >> i & 1:
                    kw[a] = '%s%d' % (a[:3], i)
            vcard_one(kw, acc, symbol=(bits % 17 == 0))
    elif kind == 'mailto-breaks':
        # line breaks and the other characters str.splitlines() treats as one, alone, doubled, leading and trailing
        brk = ['\n', '\r', '\r\n', '\n\r', '\x0b', '\x0c', '\x1c', '\x85', '\u2028', '\u2029', '\t']
        texts = []
        for b in brk:
            texts += ['a' + b + 'b', b, 'a' + b, b + 'a', 'a' + b + b + 'b', 'a' + b + 'b' + b]
        for t in texts:
            mailto_one(dict(to='a@b.c', body=t), acc)
            mailto_one(dict(to='a@b.c', subject=t), acc)
            mailto_one(dict(to=['a@b.c', 'd@e.f'], cc='c@c.c', subject='s', body=t), acc)
    elif kind == 'geo':
        geo_case(acc)
    elif kind == 'mailto':
        mailto_case(acc)
    elif kind == 'epc':
        epc_case(acc)
    elif kind == 'epc-limits':
        epc_limits(acc)
    elif kind == 'mailto1':
        mailto_one(dict(case[1]), acc)
    elif kind == 'wifi1':
        wifi_one(case[1], case[2], case[3], case[4], acc, symbol=True)
    elif kind == 'mecard1':
        mecard_one(dict(case[1]), acc, symbol=True)
    elif kind == 'vcard1':
        vcard_one(dict(case[1]), acc, symbol=True)
    else:
        raise ValueError(kind)


def oneshot_mecard(field, items, mk, acc):
    case = ('multi',)
    got = helpers.make_mecard_data(name='N', **{field: mk(items)})
    want = helpers.make_mecard_data(name='N', **{field: list(items)})
    kv, prob = parse_fields(got[7:])
    exp = [('N', 'N')] + [(ME_KEYS[field], x) for x in items]
    good = prob is None and sorted(kv) == sorted(exp) and got == want
    acc.eval(('oneshot-mecard', field, tuple(items), getattr(mk, '__name__', 'gen')), nontrivial=True, outcome=good, state=('oneshot', field))
    acc.count('payloads')
    if not good:
        acc.violation('mecard-iterable/%s' % field, 'make_mecard_data(%s=<one-shot iterable of %r>) = %r; fields %r, supplied %r' % (field, items, got, kv, exp), case)


def oneshot_vcard(field, items, mk, acc):
    case = ('multi',)
    got = helpers.make_vcard_data('N', 'D', **{field: mk(items)})
    want = helpers.make_vcard_data('N', 'D', **{field: list(items)})
    acc.eval(('oneshot-vcard', field, tuple(items), getattr(mk, '__name__', 'gen')), nontrivial=True, outcome=got == want, state=('oneshot-v', field))
    acc.count('payloads')
    if got != want or got.count('\r\n') != 5 + len(items):
        acc.violation('vcard-iterable/%s' % field, 'make_vcard_data(%s=<one-shot iterable of %r>) differs from the list form: %r' % (field, items, got), case)


def geo_case(acc):
    vals = [0, -0.0, 1e-9, 0.5, -90, 90, 179.99999999, 10, 100, 1e5, -179.12345678, 38.8976763, 1e-8, 5e-9, 123456.78901234, -0.00000001, 23]
    for lat in vals:
        for lng in vals:
            case = ('geo',)
            d = helpers.make_geo_data(lat, lng)
            m = re.fullmatch(r'geo:(-?\d+(?:\.\d+)?),(-?\d+(?:\.\d+)?)', d)
            good = bool(m) and abs(float(m.group(1)) - lat) <= 5.0001e-9 and abs(float(m.group(2)) - lng) <= 5.0001e-9
            acc.eval(('geo', lat, lng), nontrivial=True, outcome=good, state=('geo',))
            acc.count('payloads')
            if not good:
                acc.violation('geo-uri', 'make_geo_data(%r, %r) = %r is not a valid geo URI carrying the numbers' % (lat, lng, d), case)
    decode_ok(helpers.make_geo(38.8976763, -77.0365297), b'geo:38.8976763,-77.0365297', acc, ('geo',), 'geo')


def mailto_case(acc):
    tos = ['a@b.c', ['a@b.c'], ['a@b.c', 'd@e.f'], ('x@y.z',)]
    ccs = [None, 'c@c.c', ['c@c.c', 'c2@c.c'], []]
    texts = [None, '', 'plain', 'a b', '? & = # %', 'line1\r\nline2', '\xe4\xf6\xfc €', '+plus+']
    for to in tos:
        for cc in ccs:
            for bcc in (None, 'b@b.b'):
                for subject in texts:
                    for body in texts:
                        mailto_one(dict(to=to, cc=cc, bcc=bcc, subject=subject, body=body), acc)
    decode_ok(helpers.make_email('a@b.c', subject='S', body='\xe4 b'), helpers.make_make_email_data('a@b.c', subject='S', body='\xe4 b').encode(), acc, ('mailto',), 'email')


def mailto_one(kw, acc):
    to, cc, bcc, subject, body = kw['to'], kw.get('cc'), kw.get('bcc'), kw.get('subject'), kw.get('body')
    d = helpers.make_make_email_data(**kw)
    problems = []
    m = re.fullmatch(r'mailto:([^?&]*)(?:\?(.*))?', d, re.S)
    exp = []
    for k, v in (('cc', cc), ('bcc', bcc)):
        if v:
            exp.append((k, ','.join((v,) if isinstance(v, str) else v)))
    for k, v in (('subject', subject), ('body', body)):
        if v is not None:
            exp.append((k, v))
    if not m:
        problems.append('not of the form mailto:<to>[?key=value(&key=value)*]')
    else:
        if m.group(1) != ','.join((to,) if isinstance(to, str) else to):
            problems.append('recipient part %r' % m.group(1))
        q = m.group(2)
        got = []
        if q is not None:
            for part in q.split('&'):
                k, eq, v = part.partition('=')
                if not eq or not re.fullmatch(r"[A-Za-z0-9\-._~!$'()*+,;:@/?%]*", v):
                    problems.append('query component %r is not valid URI syntax' % part)
                got.append((k, unquote(v, encoding='utf-8', errors='strict')))
        if got != exp:
            problems.append('header fields %r, supplied %r' % (got, exp))
        if (q is None) != (not exp):
            problems.append('query part presence')
    acc.eval(('mailto', repr(kw)), nontrivial=True, outcome=not problems, state=('mailto', bool(cc), bcc is not None, subject is not None, body is not None))
    acc.count('payloads')
    if problems:
        acc.violation('mailto-uri', 'make_make_email_data(**%r) = %r: %s' % (kw, d, '; '.join(problems)[:200]), ('mailto1', kw))


ENCODINGS = ('utf-8', 'iso-8859-1', 'iso-8859-2', 'iso-8859-4', 'iso-8859-5', 'iso-8859-7', 'iso-8859-10', 'iso-8859-15')
SAMPLE_TEXT = {1: 'text 书', 2: 'caf\xe9', 3: 'Ł\xf3dź', 4: 'ķē', 5: 'привет', 6: 'γειά', 7: 'ąēūķ', 8: 'prix 5 €'}


def epc_parse(data):
    """bytes -> (fields dict, problems)"""
    problems = []
    if len(data) > 331:
        problems.append('payload has %d bytes (> 331)' % len(data))
    head = data.split(b'\n')
    if len(head) < 3 or not head[2].isdigit() or not 1 <= int(head[2]) <= 8:
        return None, problems + ['character set line %r' % head[2:3]]
    cs = int(head[2])
    try:
        text = data.decode(ENCODINGS[cs - 1])
    except UnicodeError:
        return None, problems + ['payload is not valid %s although the character set line says %d' % (ENCODINGS[cs - 1], cs)]
    lines = text.split('\n')
    if len(lines) not in (10, 11):
        problems.append('%d lines' % len(lines))
        return None, problems
    keys = ['tag', 'version', 'charset', 'ident', 'bic', 'name', 'iban', 'amount', 'purpose', 'reference', 'text']
    f = dict(zip(keys, lines + [''] * (11 - len(lines))))
    f['nlines'] = len(lines)
    if f['tag'] != 'BCD' or f['version'] != '002' or f['ident'] != 'SCT':
        problems.append('BCD/002/SCT header is %r/%r/%r' % (f['tag'], f['version'], f['ident']))
    if not re.fullmatch(r'EUR\d+(\.\d{1,2})?', f['amount']):
        problems.append('amount line %r is not EUR#.##' % f['amount'])
    return f, problems


def epc_one(kw, acc, expect_refusal=False, symbol=True, may_refuse=False, must_accept=False):
    case = ('epc1', {k: (str(v) if isinstance(v, decimal.Decimal) else v) for k, v in kw.items()}, expect_refusal)
    try:
        data = helpers._make_epc_qr_data(**kw)
        exc = None
    except Exception as e:
        data, exc = None, e
    if expect_refusal:
        good = isinstance(exc, ValueError)
        acc.eval(case, nontrivial=True, outcome='refused' if good else 'accepted', state=('epc-refusal', tuple(sorted(kw))))
        acc.count('epc_refusals' if good else 'epc_bad')
        if not good:
            acc.violation('epc-limit', '_make_epc_qr_data(**%r) %s although a documented limit is violated'
                          % (kw, 'returned data' if exc is None else 'raised ' + C.exc_name(exc)), case)
        return
    if exc is not None:
        acc.eval(case, nontrivial=False, outcome='exc:' + C.exc_name(exc))
        if may_refuse and isinstance(exc, ValueError):
            acc.count('epc_unencodable_refused')
            return
        if must_accept or not (isinstance(exc, ValueError) and 'too big' in str(exc)):
            acc.violation('epc-refused-valid', '_make_epc_qr_data(**%r) raised %s: %s' % (kw, C.exc_name(exc), str(exc)[:80]), case)
        return
    f, problems = epc_parse(data)
    if f is not None:
        for k in ('name', 'iban', 'bic', 'purpose', 'reference', 'text'):
            want = (kw.get(k) or '')
            want = want.strip() if k in ('name', 'bic') else want.rstrip()
            if f[k] != want:
                problems.append('%s line %r, supplied %r' % (k, f[k], want))
        try:
            if decimal.Decimal(f['amount'][3:]) != decimal.Decimal(str(kw['amount'])).quantize(decimal.Decimal('0.01')):
                problems.append('amount %r is not numerically %r' % (f['amount'], kw['amount']))
        except decimal.InvalidOperation:
            problems.append('amount line %r' % f['amount'])
        enc = kw.get('encoding')
        if enc is not None and not may_refuse:
            want_cs = enc if isinstance(enc, int) else ENCODINGS.index(enc.lower()) + 1
            if int(f['charset']) != want_cs:
                problems.append('character set %s, requested %r' % (f['charset'], enc))
        if (f['nlines'] == 11) != bool(kw.get('text')):
            problems.append('%d lines with text=%r' % (f['nlines'], kw.get('text')))
    acc.eval(case, nontrivial=True, outcome=not problems, state=('epc', tuple(sorted(kw)), f['charset'] if f else None))
    acc.count('payloads')
    if f:
        acc.add('epc_charsets', int(f['charset']))
    acc.sample({'epc': {k: str(v) for k, v in kw.items()}, 'bytes': len(data)})
    if problems:
        acc.violation('epc-layout', '_make_epc_qr_data(**%r): %s' % (kw, '; '.join(problems)[:300]), case)
    if symbol:
        try:
            qr = helpers.make_epc_qr(**kw)
        except Exception as e:
            acc.violation('epc-symbol', 'make_epc_qr(**%r) raised %s (%s) although the same fields are accepted by the payload builder'
                          % (kw, C.exc_name(e), str(e)[:80]), case)
            return
        rep = C.read(qr)
        if qr.error != 'M' or rep.level != 'M' or qr.is_micro or not isinstance(qr.version, int) or qr.version > 13:
            acc.violation('epc-symbol', 'make_epc_qr symbol is %s (must be level M, version <= 13)' % qr.designator, case)
        if rep.problems or rep.payload != data:
            acc.violation('symbol/epc', 'EPC symbol does not decode to the payload', case)
        acc.count('symbols_decoded')


BASE = dict(name='Wikimedia Foerdergesellschaft', iban='DE33100205000001194700', amount=20, text='Spende fuer Wikipedia')


def epc_case(acc):
    amounts = [0.01, 0.1, 1, 5.0, '5.00', 12.3, '12.30', decimal.Decimal('999999999.99'), '999999999.99', 100, 1000000, '0.01', decimal.Decimal('0.10'),
               10, 20.5, 1234.56, '7', 99999999.99]
    for a in amounts:
        kw = dict(BASE)
        kw['amount'] = a
        epc_one(kw, acc)
    for i, enc in enumerate(ENCODINGS, start=1):
        for e in (enc, enc.upper(), i):
            kw = dict(BASE)
            kw['encoding'] = e
            epc_one(kw, acc)
        kw = dict(BASE)
        kw['text'] = SAMPLE_TEXT[i]
        epc_one(kw, acc)                      # minimal character set chosen by the library
        kw['encoding'] = i
        epc_one(kw, acc)
        kw = dict(BASE)
        kw['name'] = SAMPLE_TEXT[i]
        epc_one(kw, acc)
    # the 331-byte limit is a limit in bytes: fields within their character limits whose UTF-8 form is larger must be refused
    for name, text in (('\u5c71' * 70, 'x' * 140), ('\u5c71' * 40, '\u5c71' * 60), ('n' * 70, '\u20ac' * 80), ('\u5c71' * 30, 'x' * 100), ('\u5c71' * 60, None),
                       ('\u0416' * 70, '\u0416' * 140), ('\u5c71' * 20, '\u5c71' * 50)):
        kw = dict(BASE)
        kw['name'] = name
        kw['text'] = text
        if text is None:
            kw['reference'] = 'RF18539007547034'
        epc_one(kw, acc, symbol=True, may_refuse=True)
    # exactly at the byte limit: payloads of 330 / 331 bytes are accepted (version 13 at level M), 332 / 333 bytes are refused
    for target in (330, 331, 332, 333):
        found = None
        for k in range(1, 71):
            for t in range(0, 141):
                kw = dict(BASE, name='\u5c71' * k, text=('x' * t) or None)
                if t == 0:
                    kw['reference'] = 'RF18'
                probe = '\n'.join(['BCD', '002', '1', 'SCT', '', kw['name'], kw['iban'], 'EUR20', '', kw.get('reference') or ''] + ([kw['text']] if kw['text'] else []))
                if len(probe.encode('utf-8')) == target:
                    found = kw
                    break
            if found:
                break
        if found:
            found['encoding'] = 'utf-8'
            epc_one(found, acc, expect_refusal=(target > 331), symbol=True, must_accept=(target <= 331))
            acc.count('epc_byte_limit_cases')
    # one-character fields, a geographic position given only half
    for extra in (dict(name='n'), dict(text='t'), dict(text=None, reference='r'), dict(name='n', text='t', bic='BFSWDE33')):
        kw = dict(BASE)
        kw.update(extra)
        epc_one(kw, acc)
    # a requested character set that cannot represent a field: refused, or a payload whose character-set line tells the truth
    for i in range(1, 9):
        for j in range(1, 9):
            if i == j:
                continue
            for field in ('text', 'name'):
                for e in (i, ENCODINGS[i - 1]):
                    kw = dict(BASE)
                    kw[field] = SAMPLE_TEXT[j]
                    kw['encoding'] = e
                    epc_one(kw, acc, symbol=False, may_refuse=True)
    for extra in (dict(bic='BFSWDE33BER'), dict(bic='BFSWDE33'), dict(purpose='CHAR'), dict(text=None, reference='RF18539007547034'),
                  dict(bic=' BFSWDE33 ', name='  padded  ', text='trailing   '), dict(text='x' * 140), dict(name='n' * 70), dict(iban='I' * 34),
                  dict(iban='ABCDE'), dict(text=None, reference='R' * 35), dict(text='€' * 60),
                  # characters outside ISO-8859-1 in the fields other than name / text (the character set must cover the whole payload)
                  dict(text=None, reference='Rechnung \u2116 5'), dict(purpose='\u0391\u0392\u0393\u0394'), dict(bic='\u0141\u00d3D\u0179PLPW'),
                  dict(name='\u041f\u0451\u0442\u0440', purpose='\u0391\u0392\u0393\u0394'), dict(iban='DE33\u20ac00205000001194700'),
                  dict(name='\u0141\u00f3d\u017a', text=None, reference='\u03b3\u03b5\u03b9\u03ac')):
        kw = dict(BASE)
        kw.update(extra)
        epc_one(kw, acc)


def epc_limits(acc):
    bad = [dict(name='n' * 71), dict(name=''), dict(name=None), dict(iban='ABCD'), dict(iban='I' * 35), dict(iban=None), dict(bic='1234567'), dict(bic='123456789'),
           dict(bic='123456789012'), dict(purpose='ABC'), dict(purpose='ABCDE'), dict(text='x' * 141), dict(text=None), dict(text=None, reference='R' * 36),
           dict(reference='RF18'), dict(amount=0), dict(amount='0.001'), dict(amount=decimal.Decimal('0.009')), dict(amount=1e9), dict(amount='1000000000'),
           dict(amount=-1), dict(amount='0.0051'), dict(amount='0.0099'), dict(amount=decimal.Decimal('999999999.991')), dict(amount='999999999.994'), dict(amount=0.0075), dict(encoding=0), dict(encoding=9), dict(encoding='utf-16'), dict(encoding='latin1x'), dict(amount='999999999.995')]
    for extra in bad:
        kw = dict(BASE)
        kw.update(extra)
        epc_one(kw, acc, expect_refusal=True)


def obligations(agg, tier):
    if agg.ctr.get('payloads', 0) < 20000:
        yield 'payloads parsed: %d' % agg.ctr.get('payloads', 0)
    if agg.sets.get('epc_charsets', set()) != set(range(1, 9)):
        yield 'EPC character sets seen: %r' % sorted(agg.sets.get('epc_charsets', ()))
    if agg.ctr.get('epc_refusals', 0) < 20:
        yield 'EPC refusals: %d' % agg.ctr.get('epc_refusals', 0)
    if agg.ctr.get('symbols_decoded', 0) < 500:
        yield 'factory symbols decoded: %d' % agg.ctr.get('symbols_decoded', 0)
