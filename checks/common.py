"""Helpers shared by the checks: calling segno, reading the result with qrref, comparing metadata."""
import os
import sys

from qrref import tables as T, decode as D, model as Mo

import segno  # imported from VERIF_REPO (sys.path is prepared by ./check)

REFUSALS = (ValueError, LookupError)


def exc_name(e):
    return type(e).__name__


def matrix_of(q):
    return [list(r) for r in q.matrix]


def read(q, parse=True):
    return D.read(q.matrix, parse=parse)


def classify_problem(p):
    """Maps a reader complaint to a violation family."""
    if 'function module' in p or 'illegal size' in p or 'not square' in p or 'has value' in p:
        return 'geometry'
    if 'format' in p:
        return 'format-info'
    if 'version word' in p:
        return 'version-info'
    if 'syndromes' in p:
        return 'rs-block'
    if 'remainder' in p:
        return 'remainder-bits'
    return 'stream'


def meta_problems(q, rep):
    """Reported metadata versus what is physically in the matrix."""
    out = []
    size = len(q.matrix)
    if rep.version is None:
        return ['no version readable']
    if q.version != rep.version:
        out.append(('meta-version', 'QRCode.version=%r, matrix is %r' % (q.version, rep.version)))
    if q.error != rep.level:
        out.append(('meta-error', 'QRCode.error=%r, format information says %r' % (q.error, rep.level)))
    if q.mask != rep.mask:
        out.append(('meta-mask', 'QRCode.mask=%r, format information says %r' % (q.mask, rep.mask)))
    if q.is_micro is not T.is_micro(rep.version) and q.is_micro != T.is_micro(rep.version):
        out.append(('meta-is_micro', 'QRCode.is_micro=%r for a %r symbol' % (q.is_micro, rep.version)))
    des = str(rep.version) + ('-' + rep.level if rep.level else '')
    if q.designator != des:
        out.append(('meta-designator', 'QRCode.designator=%r, matrix is %r' % (q.designator, des)))
    dflt = 2 if T.is_micro(rep.version) else 4
    if q.default_border_size != dflt:
        out.append(('meta-border', 'default_border_size=%r, expected %r' % (q.default_border_size, dflt)))
    for s, b in ((1, None), (1, 0), (3, 1), (10, None), (2.5, 2)):
        bb = dflt if b is None else b
        exp = ((size + 2 * bb) * s,) * 2
        got = q.symbol_size(scale=s, border=b)
        if tuple(got) != exp:
            out.append(('meta-symbol_size', 'symbol_size(%r,%r)=%r, expected %r' % (s, b, got, exp)))
    if rep.segments is not None:
        data_segs = [s.mode for s in rep.segments]
        if len(data_segs) == 1:
            if q.mode != data_segs[0]:
                out.append(('meta-mode', 'QRCode.mode=%r, mode indicator in the symbol is %r' % (q.mode, data_segs[0])))
        elif len(data_segs) > 1:
            # "None only for multi-segment symbols"; a reported mode must at least be present in the symbol
            if q.mode is not None and set(data_segs) != {q.mode}:
                out.append(('meta-mode', 'QRCode.mode=%r, symbol holds segments %r' % (q.mode, data_segs)))
    return out


def max_count(mode, ver, level, extra_bits=0):
    """Largest character count of `mode` that fits (ver, level) per ISO capacities, or -1."""
    if not T.mode_supported(mode, ver):
        return -1
    cap = T.data_bits(ver, level)
    hdr = T.mode_ind_bits(ver) + T.cci_bits(mode, ver) + extra_bits + (4 if mode == 'hanzi' else 0)
    lim = (1 << T.cci_bits(mode, ver)) - 1
    lo, hi = -1, lim
    # payload_bits is monotone
    if hdr + T.payload_bits(mode, 0) > cap:
        return -1
    lo = 0
    while lo < hi:
        mid = (lo + hi + 1) // 2
        if hdr + T.payload_bits(mode, mid) <= cap:
            lo = mid
        else:
            hi = mid - 1
    return lo


UNIT = {'numeric': '7', 'alphanumeric': 'Z', 'byte': 'a', 'kanji': '点', 'hanzi': '书'}
UNIT_BYTES = {'numeric': b'7', 'alphanumeric': b'Z', 'byte': b'a', 'kanji': '点'.encode('shift_jis'),
              'hanzi': '书'.encode('gb2312')}


def content_of(mode, n, variant=0):
    """Deterministic content of n characters in `mode` (variant changes the data, not the class)."""
    if mode == 'numeric':
        s = '7391462850'
        return ''.join(s[(i * (variant + 1) + variant) % 10] for i in range(n))
    if mode == 'alphanumeric':
        s = 'Z A$9%*+-./:QRK0'
        return ''.join(s[(i * (variant + 1) + variant) % len(s)] for i in range(n))
    if mode == 'byte':
        s = 'a~b\xe9c{d!'
        return ''.join(s[(i * (variant + 1) + variant) % len(s)] for i in range(n))
    if mode == 'kanji':
        s = '点漢字茶'
        return ''.join(s[(i + variant) % len(s)] for i in range(n))
    if mode == 'hanzi':
        s = '书读写汉'
        return ''.join(s[(i + variant) % len(s)] for i in range(n))
    raise ValueError(mode)
