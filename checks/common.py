"""Helpers shared by the checks: calling segno, reading the result with qrref, comparing metadata."""
import os
import sys

from qrref import tables as T, decode as D, model as Mo

import segno  # imported from VERIF_REPO (sys.path is prepared by ./check)

REFUSALS = (ValueError, LookupError)


def exc_name(e):
    return type(e).__name__


def matrix_of(q):
    return [list(r) for r in q.matrix]


def read(q, parse=True):
    return D.read(q.matrix, parse=parse)


def classify_problem(p):
    """Maps a reader complaint to a violation family."""
    if 'function module' in p or 'illegal size' in p or 'not square' in p or 'has value' in p:
        return 'geometry'
    if 'format' in p:
        return 'format-info'
    if 'version word' in p:
        return 'version-info'
    if 'syndromes' in p:
        return 'rs-block'
    if 'remainder' in p:
        return 'remainder-bits'
    return 'stream'


def meta_problems(q, rep):
    """Reported metadata versus what is physically in the matrix."""
    out = []
    size = len(q.matrix)
    if rep.version is None:
        return ['no version readable']
    if q.version != rep.version:
        out.append(('meta-version', 'QRCode.version=%r, matrix is %r' % (q.version, rep.version)))
    if q.error != rep.level:
        out.append(('meta-error', 'QRCode.error=%r, format information says %r' % (q.error, rep.level)))
    if q.mask != rep.mask:
        out.append(('meta-mask', 'QRCode.mask=%r, format information says %r' % (q.mask, rep.mask)))
    if q.is_micro is not T.is_micro(rep.version) and q.is_micro != T.is_micro(rep.version):
        out.append(('meta-is_micro', 'QRCode.is_micro=%r for a %r symbol' % (q.is_micro, rep.version)))
    des = str(rep.version) + ('-' + rep.level if rep.level else '')
    if q.designator != des:
        out.append(('meta-designator', 'QRCode.designator=%r, matrix is %r' % (q.designator, des)))
    dflt = 2 if T.is_micro(rep.version) else 4
    if q.default_border_size != dflt:
        out.append(('meta-border', 'default_border_size=%r, expected %r' % (q.default_border_size, dflt)))
    for s, b in ((1, None), (1, 0), (3, 1), (10, None), (2.5, 2)):
        bb = dflt if b is None else b
        exp = ((size + 2 * bb) * s,) * 2
        got = q.symbol_size(scale=s, border=b)
        if tuple(got) != exp:
            out.append(('meta-symbol_size', 'symbol_size(%r,%r)=%r, expected %r' % (s, b, got, exp)))
    if rep.segments is not None:
        data_segs = [s.mode for s in rep.segments]
        if len(data_segs) == 1:
            if q.mode != data_segs[0]:
                out.append(('meta-mode', 'QRCode.mode=%r, mode indicator in the symbol is %r' % (q.mode, data_segs[0])))
        elif len(data_segs) > 1:
            # "None only for multi-segment symbols"; a reported mode must at least be present in the symbol
            if q.mode is not None and set(data_segs) != {q.mode}:
                out.append(('meta-mode', 'QRCode.mode=%r, symbol holds segments %r' % (q.mode, data_segs)))
    return out


def max_count(mode, ver, level, extra_bits=0):
    """Largest character count of `mode` that fits (ver, level) per ISO capacities, or -1."""
    if not T.mode_supported(mode, ver):
        return -1
    cap = T.data_bits(ver, level)
    hdr = T.mode_ind_bits(ver) + T.cci_bits(mode, ver) + extra_bits + (4 if mode == 'hanzi' else 0)
    lim = (1 << T.cci_bits(mode, ver)) - 1
    lo, hi = -1, lim
    # payload_bits is monotone
    if hdr + T.payload_bits(mode, 0) > cap:
        return -1
    lo = 0
    while lo < hi:
        mid = (lo + hi + 1) // 2
        if hdr + T.payload_bits(mode, mid) <= cap:
            lo = mid
        else:
            hi = mid - 1
    return lo


UNIT = {'numeric': '7', 'alphanumeric': 'Z', 'byte': 'a', 'kanji': '点', 'hanzi': '书'}
UNIT_BYTES = {'numeric': b'7', 'alphanumeric': b'Z', 'byte': b'a', 'kanji': '点'.encode('shift_jis'),
              'hanzi': '书'.encode('gb2312')}


def content_of(mode, n, variant=0):
    """Deterministic content of n characters in `mode` (variant changes the data, not the class)."""
    if mode == 'numeric':
        s = '7391462850'
        return ''.join(s[(i * (variant + 1) + variant) % 10] for i in range(n))
    if mode == 'alphanumeric':
        s = 'Z A$9%*+-./:QRK0'
        return ''.join(s[(i * (variant + 1) + variant) % len(s)] for i in range(n))
    if mode == 'byte':
        s = 'a~b\xe9c{d!'
        return ''.join(s[(i * (variant + 1) + variant) % len(s)] for i in range(n))
    if mode == 'kanji':
        s = '点漢字茶'
        return ''.join(s[(i + variant) % len(s)] for i in range(n))
    if mode == 'hanzi':
        s = '书读写汉'
        return ''.join(s[(i + variant) % len(s)] for i in range(n))
    raise ValueError(mode)


# ----------------------------------------------------------------------------------------------
# C01 oracle: what a reference decoder must recover

MODE_OF_INT = {1: 'numeric', 2: 'alphanumeric', 4: 'byte', 8: 'kanji', 13: 'hanzi'}
INT_OF_MODE = {v: k for k, v in MODE_OF_INT.items()}


def norm_parts(content, mode=None, encoding=None):
    """content -> list of (part_content, requested_mode, requested_encoding) following the documented API:
    str/bytes/int = one part; list/tuple = parts, each optionally (content, mode, encoding)."""
    if isinstance(content, (str, bytes, int)):
        return [(content, mode, encoding)]
    out = []
    for item in content:
        c, m, e = item, mode, encoding
        if isinstance(item, tuple):
            c = item[0]
            if len(item) > 1:
                m = item[1] or mode
            if len(item) > 2:
                e = item[2] or encoding
        if isinstance(m, int) and not isinstance(m, bool):
            m = MODE_OF_INT.get(m, m)       # per-part modes are ISO mode indicator values (internal format)
        out.append((c, m, e))
    return out


def expected_parts(content, mode=None, encoding=None):
    """list of (bytes, encoding_used) per part; raises UnicodeError/LookupError if the text is not encodable."""
    res = []
    for c, m, e in norm_parts(content, mode, encoding):
        m = m.lower() if isinstance(m, str) else m
        b, enc = Mo.expected_bytes(c, m, e)
        res.append((b, enc))
    return res


def judge_payload(rep, exp_parts, eci, allow_sa=False):
    """Returns list of (family, message) for statement C01 (payload identity and ECI headers)."""
    out = []
    for p in rep.problems:
        fam = classify_problem(p)
        if fam != 'remainder-bits':
            out.append((fam, p))
    if rep.segments is None:
        return out or [('stream', 'no segments readable')]
    if rep.sa is not None and not allow_sa:
        out.append(('stream', 'unexpected Structured Append header'))
    want = b''.join(b for b, _ in exp_parts)
    got = rep.payload
    if got != want:
        out.append(('payload', 'decoded payload %r... (%d bytes) != content %r... (%d bytes); segments %r'
                    % (got[:24], len(got), want[:24], len(want), [(s.mode, s.count) for s in rep.segments][:6])))
        return out
    micro = T.is_micro(rep.version)
    # part boundaries
    bounds = []
    p = 0
    for b, enc in exp_parts:
        bounds.append((p, p + len(b), enc))
        p += len(b)
    p = 0
    for s in rep.segments:
        a, b_ = p, p + len(s.data)
        p = b_
        if s.eci is not None and (micro or not eci):
            out.append(('eci-header', 'ECI header %r present although %s' % (s.eci, 'the symbol is Micro QR' if micro else 'eci was not requested')))
            continue
        if s.mode != 'byte' or a == b_:
            continue
        encs = set()
        raw = set()
        for (x, y, enc) in bounds:
            if x < b_ and a < y:
                encs.add(Mo.canon_codec(enc))
                raw.add(enc)
        if not eci or micro:
            continue
        nonlatin = sorted(e for e in encs if e != 'iso8859-1')
        if not nonlatin:
            if s.eci not in (None, 3):
                out.append(('eci-header', 'byte segment in ISO-8859-1 announced as ECI %r' % s.eci))
            elif s.eci is not None and raw == {'iso-8859-1'}:
                # the default encoding under its own name (given as 'iso-8859-1' or detected): "whose encoding is not ISO-8859-1"
                # does not apply, no header.  (Other spellings of Latin-1 - 'latin1', 'ISO-8859-1' - get an ECI 3 header from the
                # library, which is valid ISO and which the statement does not exclude; they stay tolerated.)
                out.append(('eci-header', 'ECI header %r before a byte segment in the default encoding iso-8859-1' % s.eci))
        elif len(encs) > 1:
            out.append(('eci-header', 'one byte segment covers parts in different encodings %r' % sorted(encs)))
        else:
            num = T.ECI_NUM.get(nonlatin[0])
            if num is None:
                out.append(('eci-header', 'symbol returned for encoding %r which has no ECI assignment number known to the model' % nonlatin[0]))
            elif s.eci != num:
                out.append(('eci-header', 'byte segment encoded in %s carries ECI %r, expected %r' % (nonlatin[0], s.eci, num)))
    return out
