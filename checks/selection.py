"""Shared enumeration for C04 (version selection / overflow) and C05 (error level / boosting).

Model: qrref.select.select  - ordered list M1<..<M4<1<..<40, admissibility, ISO capacities, widths of the candidate
version.  Every model prediction is replayed on the implementation (make) and compared."""
from qrref import tables as T, select as Sel, model as Mo
from . import common as C
from .common import segno

MODES = ('numeric', 'alphanumeric', 'byte', 'kanji', 'hanzi')
LEVELS = (None, 'L', 'M', 'Q', 'H')
REQ_ALPHABET = ('M1', 'M2', 'M3', 'M4', 1, 9, 10, 26, 27, 40)
MAXLEN = {'numeric': 7090, 'alphanumeric': 4297, 'byte': 2954, 'kanji': 1818, 'hanzi': 1818}


def boundaries():
    """(version, level, mode, n_max) for every capacity cell: 825 of them."""
    for v in T.ORDER:
        for lvl in T.levels_of(v):
            for mode in MODES:
                n = C.max_count(mode, v, lvl)
                if n >= 0 and T.mode_supported(mode, v):
                    yield v, lvl, mode, n


def gen_cases(tier):
    q = tier == 'quick'
    # (a) capacity boundaries, both sides
    for v, lvl, mode, n in boundaries():
        yield ('bnd', v, lvl, mode, n)
    # (b) all lengths
    for mode in MODES:
        top = 300 if q else MAXLEN[mode]
        step = 20
        for lo in range(0, top + 1, step):
            yield ('len', mode, lo, min(top, lo + step - 1), q)
    # (c) requested-version grid at boundary lengths
    for v, lvl, mode, n in boundaries():
        if q and not (T.is_micro(v) or v <= 10 or v in (26, 27, 40)):
            continue
        yield ('req', v, lvl, mode, n)
    # (d) multi-part overhead at character count indicator range edges
    for ver in (9, 10, 26, 27):
        for lvl in ('L', 'M', 'Q', 'H'):
            for lo in range(1, 261, 20):
                yield ('alt', ver, lvl, lo, lo + 19)
    for ver in ('M3', 'M4', 1, 2, None):
        for lvl in ('L', 'M', 'Q', 'H', None):
            if ver is not None and lvl is not None and lvl not in T.levels_of(ver):
                continue
            yield ('alt', ver, lvl, 1, 45)
    for pair in ('hn', 'kb', 'hb'):
        for ver in (1, 2, 3, None):
            for lvl in ('L', 'H'):
                yield ('altpairs', ver, lvl, pair)
    # (e) ECI overhead (byte parts in UTF-8 with eci=True) around boundaries of small versions
    for v in (1, 2, 3, 9, 10):
        for lvl in ('L', 'H'):
            yield ('eci', v, lvl)
        yield ('ecilevels', v)
    # (f) adjacent parts of the same mode (which the encoder may merge into one segment) sized around every small capacity
    for v in T.MICRO + (1, 2, 3, 9, 10):
        for lvl in T.levels_of(v):
            yield ('merge', v, lvl)
    # (h) bit-exact capacity of every (version, level): multi-part contents needing exactly capacity and capacity + 1 bits
    for v in T.ORDER:
        yield ('bitexact', v)
    # (i) the command line route: --version / --error / --micro / --no-micro / --no-error-boost
    for i in range(len(CLI_CONTENTS)):
        yield ('cli', i)
    # (j) what the format information of every (version, level, mask) announces is the level of the object (C05's observation point)
    for v in T.ORDER:
        yield ('fmtcells', v)
    # (g) cross-talk: one process, one fixed order and its reverse (exposes state shared between calls, e.g. incompletely keyed caches)
    yield ('crosstalk', 0)
    yield ('crosstalk', 1)


def model_parts(mode, n, nonlatin=False):
    return [(mode, n, nonlatin)]


def call(content, kw):
    try:
        return segno.make(content, **kw), None
    except Exception as e:  # judged by the caller
        return None, e


def evaluate(acc, case, content, parts, kw, single=True, decode=False, exp_bytes=None, want='both', maker=None):
    """One model prediction replayed on the implementation.  `want` selects the statement: c04 | c05 | both."""
    pred = Sel.select(parts, error=kw.get('error'), version=kw.get('version'), micro=kw.get('micro'),
                      eci=kw.get('eci', False), boost=kw.get('boost_error', True), single=single)
    qr, exc = call(content, kw) if maker is None else maker()
    state = (tuple(parts) if len(parts) < 4 else (len(parts), parts[0]), kw.get('error'), kw.get('micro'), kw.get('version'),
             kw.get('eci', False), kw.get('boost_error', True))
    if qr is None:
        outcome = 'refused:' + C.exc_name(exc)
    else:
        outcome = qr.designator
    acc.eval(case, nontrivial=(qr is not None) or pred[0] == 'refuse', outcome=outcome, state=state)
    acc.sample({'case': case, 'model': pred, 'impl': outcome})
    if pred[0] == 'ok':
        acc.add('model_versions', pred[1])
        acc.add('model_levels', (pred[1], pred[2]))
        acc.count('model_ok')
    else:
        acc.count('model_refuse')
    do4 = want in ('c04', 'both')
    do5 = want in ('c05', 'both')
    if qr is None:
        if not isinstance(exc, ValueError):
            if do4:
                acc.violation('exception/' + C.exc_name(exc), 'make raised %s: %s' % (C.exc_name(exc), str(exc)[:80]), case)
            return None
        if pred[0] == 'ok':
            if do4:
                acc.violation('refused-fitting', 'model: content fits %s-%s, implementation refused (%s: %s)'
                              % (pred[1], pred[2], C.exc_name(exc), str(exc)[:60]), case, obs=outcome, exp=pred)
        elif pred[1] == 'does not fit' and type(exc).__name__ != 'DataOverflowError' and do4 \
                and not (kw.get('version') is not None and any(not T.mode_supported(m, kw['version']) for m, _, _ in parts)):
            # (a mode that the requested version does not have is a plain ValueError: "mode not available in the version")
            acc.violation('overflow-exception-type', 'nothing admissible fits but %s was raised instead of DataOverflowError: %s'
                          % (C.exc_name(exc), str(exc)[:60]), case)
        return None
    if do5 and kw.get('error') is not None and (qr.error is None or Sel.LEVEL_ORDER.index(qr.error) < Sel.LEVEL_ORDER.index(kw['error'])):
        acc.violation('level/below-request', 'level %r of the returned %s symbol is below the requested %r' % (qr.error, qr.designator, kw['error']), case)
    if pred[0] == 'refuse':
        if do4:
            acc.violation('accepted-overflow', 'model refuses (%s) but a %s symbol was returned' % (pred[1], qr.designator), case,
                          obs=qr.designator, exp=pred)
        return qr
    _, pv, pl = pred
    if do4 and qr.version != pv:
        acc.violation('version/%s' % ('requested' if kw.get('version') is not None else 'auto'),
                      'model selects version %r, implementation returned %r' % (pv, qr.version), case, obs=qr.designator, exp=pred)
    if do5:
        if single:
            if qr.error != pl:
                acc.violation('level/%s' % ('boost' if kw.get('boost_error', True) else 'noboost'),
                              'model level %r, implementation %r (version %r)' % (pl, qr.error, qr.version), case, obs=qr.designator, exp=pred)
        else:
            req = kw.get('error') or ('L' if qr.version != 'M1' else None)
            if req is not None and (qr.error is None or Sel.LEVEL_ORDER.index(qr.error) < Sel.LEVEL_ORDER.index(req)):
                acc.violation('level/below-request', 'level %r is below the requested %r' % (qr.error, req), case)
        if qr.is_micro and qr.error == 'H':
            acc.violation('level/H-in-micro', 'level H in a Micro QR symbol', case)
        # what is physically in the symbol
        fv, fl, fm, fw = C.D.read_format(qr.matrix)
        if fl != qr.error or fv != qr.version:
            acc.violation('level/format-info', 'format information carries %r-%r, object reports %r-%r'
                          % (fv, fl, qr.version, qr.error), case)
    if decode and do4:
        rep = C.read(qr)
        acc.count('decoded')
        bad = [p for p in rep.problems if C.classify_problem(p) != 'remainder-bits']
        if bad:
            acc.violation('decode', bad[0], case)
        elif exp_bytes is not None and rep.payload != exp_bytes:
            acc.violation('silent-cut', 'decoded payload has %d bytes, content has %d (symbol %s)'
                          % (len(rep.payload), len(exp_bytes), qr.designator), case)
    return qr


def content_for(mode, n):
    if n == 0:
        return '', [('hanzi' if mode == 'hanzi' else 'byte', 0, False)], b''
    c = C.content_of(mode, n, 0)
    enc = {'kanji': 'shift_jis', 'hanzi': 'gb2312'}.get(mode, 'latin-1')
    return c, [(mode, n, False)], c.encode(enc)


def base_kw(mode):
    return {'mask': 0, 'mode': 'hanzi'} if mode == 'hanzi' else {'mask': 0}


def run_case(case, acc, want='both'):
    kind = case[0]
    if kind == 'bnd':
        _, v, lvl, mode, n = case
        for k in (n, n + 1):
            if k > MAXLEN[mode] + 2:
                continue
            content, parts, eb = content_for(mode, k)
            for micro in (None, True, False):
                for eci in (False, True):
                    for boost in (True, False):
                        kw = base_kw(mode)
                        if lvl is not None:
                            kw['error'] = lvl
                        if micro is not None:
                            kw['micro'] = micro
                        if eci:
                            kw['eci'] = True
                        if not boost:
                            kw['boost_error'] = False
                        dec = boost and not eci and micro is None
                        evaluate(acc, ('one', mode, k, kw), content, parts, kw, decode=dec, exp_bytes=eb, want=want)
                        acc.add('bnd_cells', (v, lvl, mode, k - n))
            # the same length with the version requested and the lowest / no level: boosting must stop exactly at the cell's level
            for req_lvl in (None, T.levels_of(v)[0]):
                kw = base_kw(mode)
                kw['version'] = v
                if req_lvl is not None:
                    kw['error'] = req_lvl
                evaluate(acc, ('one', mode, k, kw), content, parts, kw, decode=False, want=want)
    elif kind == 'len':
        _, mode, lo, hi, quick = case
        for n in range(lo, hi + 1):
            content, parts, eb = content_for(mode, n)
            for lvl in LEVELS:
                for micro in ((None, True, False) if quick else (None, False)):
                    kw = base_kw(mode)
                    if lvl is not None:
                        kw['error'] = lvl
                    if micro is not None:
                        kw['micro'] = micro
                    evaluate(acc, ('one', mode, n, kw), content, parts, kw, decode=False, want=want)
            if not quick and n <= 40:
                for lvl in LEVELS:
                    kw = base_kw(mode)
                    kw['micro'] = True
                    if lvl is not None:
                        kw['error'] = lvl
                    evaluate(acc, ('one', mode, n, kw), content, parts, kw, want=want)
    elif kind == 'req':
        _, v, lvl, mode, n = case
        for k in (n, n + 1):
            content, parts, eb = content_for(mode, k)
            auto = Sel.select(parts, error=lvl, boost=False)
            reqs = set(REQ_ALPHABET)
            if auto[0] == 'ok':
                i = T.ORDER.index(auto[1])
                reqs |= {T.ORDER[j] for j in (i - 1, i, i + 1) if 0 <= j < len(T.ORDER)}
            for rv in sorted(reqs, key=T.ORDER.index):
                kw = base_kw(mode)
                kw['version'] = rv
                if lvl is not None:
                    kw['error'] = lvl
                small = T.is_micro(rv) or rv <= 10
                evaluate(acc, ('one', mode, k, kw), content, parts, kw, decode=small, exp_bytes=eb, want=want)
    elif kind == 'alt':
        _, ver, lvl, lo, hi = case
        for k in range(lo, hi + 1):
            alt(ver, lvl, k, acc, want)
    elif kind == 'alt1':
        alt(case[1], case[2], case[3], acc, want)
    elif kind == 'altp':
        alt_pair(case[1], case[2], case[3], acc, want, case[4])
    elif kind == 'altpairs':
        _, ver, lvl, pair = case
        for k in range(1, 41):
            alt_pair(ver, lvl, k, acc, want, pair)
    elif kind == 'eci':
        _, v, lvl = case
        nmax = C.max_count('byte', v, lvl, extra_bits=12)
        for n in range(max(1, nmax - 2), nmax + 3):
            for req in (None, v):
                content = 'a' * n          # ASCII bytes, announced as UTF-8
                kw = {'mask': 0, 'error': lvl, 'eci': True, 'encoding': 'utf-8', 'mode': 'byte'}
                if req is not None:
                    kw['version'] = req
                evaluate(acc, ('one8', n, kw), content, [('byte', n, True)], kw, decode=True, exp_bytes=content.encode(), want=want)
        # ECI headers of several byte parts in different encodings (12 bits each), and histories that alternate the encodings
        for variant, encs in (('two', ('utf-8', 'iso-8859-5')), ('three', ('utf-8', 'iso-8859-1', 'shift_jis')), ('same', ('utf-8', 'utf-8'))):
            heads = sum(12 for e in encs if e != 'iso-8859-1') if variant != 'same' else 12
            nseg = len(encs) if variant != 'same' else 1
            room = T.data_bits(v, lvl) - heads - nseg * (4 + T.cci_bits('byte', v))
            total = room // 8
            for d in (-1, 0, 1, 2):
                n = total + d
                if n < len(encs):
                    continue
                for req in (None, v):
                    multi_eci(v, lvl, encs, n, req, acc, want)
        for n in range(max(1, nmax - 1), nmax + 3):
            for enc, nonlatin in (('iso-8859-1', False), ('utf-8', True), ('iso-8859-1', False), ('utf-8', True)):
                kw = {'mask': 0, 'error': lvl, 'eci': True, 'encoding': enc, 'mode': 'byte'}
                evaluate(acc, ('oneenc', n, kw), 'a' * n, [('byte', n, nonlatin)], kw, decode=True, exp_bytes=b'a' * n, want=want)
    elif kind == 'ecilevels':
        _, v = case
        for target in ('L', 'M', 'Q', 'H'):
            nmax = C.max_count('byte', v, target, extra_bits=12)
            for n in range(max(1, nmax - 1), nmax + 2):
                for req_lvl in ('L', target, None):
                    for req in (None, v):
                        kw = {'mask': 0, 'eci': True, 'encoding': 'utf-8', 'mode': 'byte'}
                        if req_lvl is not None:
                            kw['error'] = req_lvl
                        if req is not None:
                            kw['version'] = req
                        evaluate(acc, ('one8', n, kw), 'a' * n, [('byte', n, True)], kw, decode=True, exp_bytes=b'a' * n, want=want)
        for alias in ('latin1', 'ISO-8859-1', 'l1'):
            for target in ('L', 'H'):
                for extra in (0, 12):
                    nmax = C.max_count('byte', v, target, extra_bits=extra)
                    for n in range(max(1, nmax - 1), nmax + 2):
                        kw = {'mask': 0, 'eci': True, 'encoding': alias, 'mode': 'byte', 'error': target, 'boost_error': False}
                        qr, exc = call('a' * n, kw)
                        if qr is None:
                            continue
                        rep = C.read(qr)
                        written = bool(rep.segments and rep.segments[0].eci is not None)
                        evaluate(acc, ('alias', n, kw, written), 'a' * n, [('byte', n, written)], kw, decode=True, exp_bytes=b'a' * n, want=want)
    elif kind == 'alias':
        _, n, kw, written = case
        evaluate(acc, case, 'a' * n, [('byte', n, bool(written))], dict(kw), decode=True, exp_bytes=b'a' * n, want=want)
    elif kind == 'merge':
        _, v, lvl = case
        merge_family(v, lvl, acc, want)
    elif kind == 'merge1':
        merge_one(case[1], case[2], case[3], case[4], case[5], acc, want)
    elif kind == 'crosstalk':
        crosstalk(case[1], acc, want)
    elif kind == 'cli':
        for ver in (None, 'M1', 'M2', 'M3', 'M4', 'm2', '1', '2'):
            for err in (None, 'L', 'M', 'Q', 'H', '-', 'm'):
                for mic in (None, '--micro', '--no-micro'):
                    for boost in (None, '--no-error-boost'):
                        cli_one(case[1], ver, err, mic, boost, acc, want)
                        if mic is None and ver is not None and ver.isdigit():
                            cli_one(case[1], ver, err, '--seq', boost, acc, want)
    elif kind == 'cli1':
        cli_one(case[1], case[2], case[3], case[4], case[5], acc, want)
    elif kind == 'fmtcells':
        v = case[1]
        if want == 'c04':
            return
        for lvl in T.levels_of(v):
            for m in range(4 if T.is_micro(v) else 8):
                kw = {'version': v, 'mask': m, 'boost_error': False}
                if lvl is not None:
                    kw['error'] = lvl
                for content in ('7', 'A7') if T.mode_supported('alphanumeric', v) else ('7',):
                    qr = segno.make(content, **kw)
                    fv, fl, fm, fw = C.D.read_format(qr.matrix)
                    acc.eval(('fmtcell', v, lvl, m, content), nontrivial=True, outcome=(fv, fl), state=('fmtcell', v, lvl, m))
                    acc.count('format_cells')
                    if fl != lvl or qr.error != lvl or fv != v:
                        acc.violation('level/format-info', 'make(%r, **%r): format information carries %r-%r, the object reports %r-%r' % (content, kw, fv, fl, qr.version, qr.error),
                                      ('fmtcells', v))
    elif kind == 'bitexact':
        for lvl in T.levels_of(case[1]):
            for over in (0, 1):
                bitexact(case[1], lvl, over, acc, want)
    elif kind == 'bitexact1':
        bitexact(case[1], case[2], case[3], acc, want)
    elif kind == 'oneenc':
        _, n, kw = case
        nonlatin = kw.get('encoding') != 'iso-8859-1'
        evaluate(acc, case, 'a' * n, [('byte', n, nonlatin)], dict(kw), decode=True, exp_bytes=b'a' * n, want=want)
    elif kind == 'multieci':
        _, v, lvl, encs, n, req = case
        multi_eci(v, lvl, tuple(encs), n, req, acc, want)
    elif kind == 'one':
        _, mode, n, kw = case
        content, parts, eb = content_for(mode, n)
        evaluate(acc, case, content, parts, dict(kw), decode=True, exp_bytes=eb, want=want)
    elif kind == 'one8':
        _, n, kw = case
        evaluate(acc, case, 'a' * n, [('byte', n, True)], dict(kw), decode=True, exp_bytes=b'a' * n, want=want)
    else:
        raise ValueError(kind)


def multi_eci(v, lvl, encs, n, req, acc, want):
    """n ASCII bytes spread over len(encs) byte parts, each announced in its own encoding, eci=True"""
    k = len(encs)
    sizes = [n // k + (1 if i < n % k else 0) for i in range(k)]
    content = [(chr(0x61 + i) * sz, 4, enc) for i, (sz, enc) in enumerate(zip(sizes, encs))]
    if len(set(encs)) == 1:
        parts = [('byte', n, True)]                     # same mode and encoding: one segment, one header
    else:
        parts = [('byte', sz, enc != 'iso-8859-1') for sz, enc in zip(sizes, encs)]
    kw = {'mask': 0, 'error': lvl, 'eci': True}
    if req is not None:
        kw['version'] = req
    qr = evaluate(acc, ('multieci', v, lvl, list(encs), n, req), content, parts, kw, single=False, decode=True,
                  exp_bytes=''.join(c[0] for c in content).encode(), want=want)
    if qr is not None and want in ('c04', 'both'):
        rep = C.read(qr)
        exp_parts = [(c[0].encode(), c[2]) for c in content]
        for fam, msg in C.judge_payload(rep, exp_parts, True):
            acc.violation('eci/' + fam, msg, ('multieci', v, lvl, list(encs), n, req))


def merge_family(v, lvl, acc, want):
    for mode in ('numeric', 'alphanumeric', 'byte'):
        if not T.mode_supported(mode, v):
            continue
        nmax = C.max_count(mode, v, lvl)
        unit = {'numeric': 3, 'alphanumeric': 2, 'byte': 1}[mode]
        for total in range(max(2 * unit, nmax - 2), nmax + 3):
            for first in (unit, 2 * unit, total // 2 // unit * unit):
                if 0 < first < total:
                    merge_one(v, lvl, mode, first, total - first, acc, want)


def merge_one(v, lvl, mode, k1, k2, acc, want):
    """two adjacent parts of the same mode (k1 a whole number of groups, so the encoder may merge them)"""
    if want == 'c05':
        return
    case = ('merge1', v, lvl, mode, k1, k2)
    c = C.content_of(mode, k1 + k2, 0)
    content = [c[:k1], c[k1:]]
    exp = c.encode('latin-1')
    lo = Sel.select([(mode, k1 + k2, False)], error=lvl, boost=False)                      # merged into one segment
    hi = Sel.select([(mode, k1, False), (mode, k2, False)], error=lvl, boost=False)        # two segments
    for req in (None, v):
        kw = {'mask': 0}
        if lvl is not None:
            kw['error'] = lvl
        if req is not None:
            kw['version'] = req
        qr, exc = call(content, kw)
        acc.eval(case + (req,), nontrivial=qr is not None, outcome=qr.designator if qr else 'refused', state=('merge', mode, k1, k2, lvl, req))
        if qr is None:
            if not isinstance(exc, ValueError):
                acc.violation('exception/' + C.exc_name(exc), 'make(%r) raised %s' % (content, C.exc_name(exc)), case)
            elif req is None and hi[0] == 'ok':
                acc.violation('refused-fitting', 'two %s parts of %d+%d characters fit %s-%s but were refused' % (mode, k1, k2, hi[1], hi[2]), case)
            continue
        rep = C.read(qr)
        bad = [p for p in rep.problems if C.classify_problem(p) != 'remainder-bits']
        if bad or rep.payload != exp:
            acc.violation('silent-cut/merged-parts', 'make(%r, **%r) -> %s does not decode to the content (%s)'
                          % ([x[:12] for x in content], kw, qr.designator, bad[:1] or 'payload %d of %d bytes' % (len(rep.payload), len(exp))), case)
        if req is None and lo[0] == 'ok' and T.ORDER.index(qr.version) < T.ORDER.index(lo[1]):
            acc.violation('version/too-small', 'version %r returned, even one merged segment needs %r' % (qr.version, lo[1]), case)
        if req is None and hi[0] == 'ok' and T.ORDER.index(qr.version) > T.ORDER.index(hi[1]):
            acc.violation('version/not-smallest', 'version %r returned, two separate segments already fit %r' % (qr.version, hi[1]), case)


CLI_CONTENTS = [('numeric', '1'), ('numeric', '12345'), ('numeric', '123456'), ('alphanumeric', 'ABCDEF'), ('byte', 'abc'), ('byte', 'a' * 14),
                ('byte', 'a' * 15), ('numeric', '1' * 35), ('alphanumeric', 'A' * 21), ('byte', 'a' * 18), ('kanji', '\u70b9\u8317')]


def cli_one(ci, ver, err, mic, boost, acc, want):
    """the same decision through the command line tool (cli.parse + cli.make_code, the two steps cli.main performs)"""
    import contextlib
    import io
    from segno import cli
    mode, text = CLI_CONTENTS[ci]
    argv = ['--pattern', '0']
    if ver is not None:
        argv += ['--version', ver]
    if err is not None:
        argv += ['--error', err]
    seq = mic == '--seq'
    mic0 = mic
    if seq:
        # --seq with a version the content fits: one plain symbol of that version, the same decision as without --seq
        argv += ['--seq']
        mic = None
    if mic:
        argv.append(mic)
    if boost:
        argv.append(boost)
    argv += ['--', text]
    # what the flags mean (docs/command-line.rst): no Micro QR unless --micro (only Micro QR) or a Micro version is requested
    v = ver.upper() if ver is not None else None
    v = int(v) if v is not None and v.isdigit() else v
    # (--no-micro is the default and cannot be told from "not given": a requested Micro version wins over it, see cli.parse)
    micro = True if mic == '--micro' else (None if v in T.MICRO else False)
    level = None if err in (None, '-') else err.upper()
    kw = {'mask': 0}
    if v is not None:
        kw['version'] = v
    if level is not None:
        kw['error'] = level
    if micro is not None:
        kw['micro'] = micro
    if boost:
        kw['boost_error'] = False

    def maker():
        try:
            with contextlib.redirect_stdout(io.StringIO()), contextlib.redirect_stderr(io.StringIO()):
                cfg = cli.parse(list(argv))
        except SystemExit:
            return None, ValueError('command line not accepted')
        try:
            res = cli.make_code(cfg)
        except Exception as e:  # judged by evaluate
            return None, e
        if seq:
            if len(res) != 1:
                return None, segno.DataOverflowError('several symbols (the content does not fit one symbol of the version: correct for --seq)')
            return res[0], None
        return res, None
    n = len(text)
    evaluate(acc, ('cli1', ci, ver, err, mic0, boost), text, [(mode, n, False)], kw, decode=True, exp_bytes=text.encode('shift_jis' if mode == 'kanji' else 'latin-1'),
             want=want, maker=maker)
    acc.count('cli_requests')


def solve_bits(v, target):
    """(digits, letters, bytes) of a numeric + alphanumeric + byte content that needs exactly `target` bits in version v"""
    modes = [m for m in ('numeric', 'alphanumeric', 'byte') if T.mode_supported(m, v)]
    head = {m: T.mode_ind_bits(v) + T.cci_bits(m, v) for m in modes}
    lim = {m: (1 << T.cci_bits(m, v)) - 1 for m in modes}
    for d in range(1, min(lim['numeric'], 12) + 1):
        rest = target - head['numeric'] - T.payload_bits('numeric', d)
        if rest == 0:
            return (d, 0, 0)
        if 'alphanumeric' not in modes:
            continue
        for a in range(1, min(lim['alphanumeric'], 8) + 1):
            r2 = rest - head['alphanumeric'] - T.payload_bits('alphanumeric', a)
            if r2 == 0:
                return (d, a, 0)
            if 'byte' in modes and r2 > head['byte'] and (r2 - head['byte']) % 8 == 0 and 1 <= (r2 - head['byte']) // 8 <= lim['byte']:
                return (d, a, (r2 - head['byte']) // 8)
    # long single-mode fillers for the versions without byte mode
    for m in modes:
        for n in range(1, lim[m] + 1):
            if head[m] + T.payload_bits(m, n) == target:
                return (n, 0, 0) if m == 'numeric' else None
    return None


def bitexact(v, lvl, over, acc, want):
    """a three-part content (digits, letters, bytes) that needs exactly capacity (+1) bits of the cell (v, lvl): the cell's capacity
    is decided to the bit, with the version requested and automatic, with and without error-level boosting"""
    cap = T.data_bits(v, lvl)
    sol = solve_bits(v, cap + over)
    if sol is None:
        acc.count('bitexact_unreachable')
        return
    d, a, b = sol
    content = [x for x in ('7' * d, 'K' * a, 'z' * b) if x]
    parts = [(m, n, False) for m, n in (('numeric', d), ('alphanumeric', a), ('byte', b)) if n]
    assert Sel.required_bits(parts, v) == cap + over, (v, lvl, sol)
    acc.add('bitexact_cells', (v, lvl, over))
    exp = ''.join(content).encode()
    case = ('bitexact1', v, lvl, over)
    lowest = T.levels_of(v)[0]
    for kw in ({'version': v, 'error': lvl, 'boost_error': False}, {'error': lvl, 'boost_error': False}, {'version': v, 'error': lowest},
               {'error': lvl, 'boost_error': False, 'micro': False}):
        kw = dict(kw, mask=0)
        if kw.get('error') is None:
            del kw['error']
        if kw.get('micro') is False and not T.is_micro(v):
            continue
        # (the library boosts single-segment content only, and the property states the boosted level for single-part content only)
        evaluate(acc, case, content, parts, kw, single=(len(parts) == 1), decode=(T.is_micro(v) or v <= 12), exp_bytes=exp, want=want)


def crosstalk(direction, acc, want):
    """All small configurations in ONE process in a fixed order (and, as a second case, in the reverse order): whichever of two
    configurations that share state runs second is judged against the model."""
    configs = []
    for mode in MODES:
        for n in range(0, 121):
            for lvl in LEVELS:
                for micro in (None, True):
                    configs.append((mode, n, lvl, micro))
    if direction:
        configs.reverse()
    else:
        # interleave the modes so that equal bit lengths of different modes meet
        configs.sort(key=lambda c: (c[1], MODES.index(c[0]), str(c[2]), str(c[3])))
    for mode, n, lvl, micro in configs:
        content, parts, eb = content_for(mode, n)
        kw = base_kw(mode)
        if lvl is not None:
            kw['error'] = lvl
        if micro is not None:
            kw['micro'] = micro
        evaluate(acc, ('one', mode, n, kw), content, parts, kw, decode=False, want=want)


ALT_PAIRS = {'na': (('numeric', '1', 1), ('alphanumeric', 'A', 2)), 'hn': (('hanzi', ('书', 13), 13), ('numeric', '7', 1)),
             'kb': (('kanji', ('点', 8), 8), ('byte', 'a', 4)), 'hb': (('hanzi', ('读', 13), 13), ('byte', ('\xe9', 4), 4))}


def alt(ver, lvl, k, acc, want, pair='na'):
    """k alternating one-character parts of two modes (numeric/alphanumeric by default), requested version at a count-indicator
    range edge; other pairs put several Hanzi / Kanji segments into one symbol"""
    (m1, c1, _), (m2, c2, _) = ALT_PAIRS[pair]
    if pair != 'na':
        return alt_pair(ver, lvl, k, acc, want, pair)
    content = ['1' if i % 2 == 0 else 'A' for i in range(k)]
    parts = [('numeric' if i % 2 == 0 else 'alphanumeric', 1, False) for i in range(k)]
    for boost in (True, False):
        kw = {'mask': 0}
        if ver is not None:
            kw['version'] = ver
        if lvl is not None:
            kw['error'] = lvl
        kw0 = {'version': ver, 'error': lvl, 'mask': 0}
        if not boost:
            kw['boost_error'] = False
        evaluate(acc, ('alt1', ver, lvl, k), content, parts, kw, single=(k == 1), decode=True,
                 exp_bytes=''.join(content).encode(), want=want)
    if isinstance(ver, int) and want in ('c04', 'both'):
        # the same request through make_sequence(version=ver): one symbol of that version holding the content, or a refusal
        kw = {'version': ver, 'mask': 0}
        if lvl is not None:
            kw['error'] = lvl
        pred = Sel.select(parts, error=lvl, version=ver, micro=False, boost=False)
        try:
            seq = segno.make_sequence(content, **kw)
        except ValueError:
            seq = None
        case = ('alt1', ver, lvl, k)
        acc.eval(case + ('seq',), nontrivial=seq is not None, outcome=None if seq is None else tuple(q.designator for q in seq), state=('altseq', ver, lvl, k))
        if seq is not None:
            if pred[0] == 'refuse' and len(seq) == 1:
                acc.violation('accepted-overflow/sequence', 'make_sequence(%d alternating parts, version=%r, error=%r) returned one %s symbol, the content does not fit that version'
                              % (k, ver, lvl, seq[0].designator), case)
            elif len(seq) == 1:
                rep = C.read(seq[0])
                if [p for p in rep.problems if C.classify_problem(p) != 'remainder-bits'] or rep.payload != ''.join(content).encode():
                    acc.violation('silent-cut/sequence', 'make_sequence(%d alternating parts, version=%r, error=%r) -> %s does not decode to the content (%s)'
                                  % (k, ver, lvl, seq[0].designator, rep.problems[:1]), case)


def alt_pair(ver, lvl, k, acc, want, pair):
    (m1, c1, _), (m2, c2, _) = ALT_PAIRS[pair]
    content, parts, exp = [], [], b''
    for i in range(k):
        m, c = (m1, c1) if i % 2 == 0 else (m2, c2)
        if isinstance(c, tuple):                      # (text, mode constant): per-part mode in the internal tuple format
            content.append((c[0] * 2, c[1]))
            text = c[0] * 2
        else:
            content.append(c * 2)
            text = c * 2
        enc = {'hanzi': 'gb2312', 'kanji': 'shift_jis'}.get(m, 'latin-1')
        parts.append((m, 2, False))
        exp += text.encode(enc)
    if ver is not None and any(not T.mode_supported(m, ver) for m, _, _ in parts):
        return
    kw = {'mask': 0}
    if ver is not None:
        kw['version'] = ver
    if lvl is not None:
        kw['error'] = lvl
    if ver is None:
        kw['micro'] = False
    evaluate(acc, ('altp', ver, lvl, k, pair), content, parts, kw, single=False, decode=True, exp_bytes=exp, want=want)
