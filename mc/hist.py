"""E-hist: explicit-state search over call histories of the real library.

State   = canonical hash of all mutable state reachable from the segno.* modules (module globals, containers,
          instance dicts/slots, function defaults / kw-defaults / closure cells / attributes, class attributes,
          functools caches) + hash of the shared argument objects + hashes of every object returned earlier.
Step    = one real API call from the operation menu, executed in a forked copy of a process that is in the source
          state (live objects cannot be copied; fork gives an exact copy of the interpreter).
Oracle  = the call's observation must equal the observation of the same call made first thing in a fresh interpreter.
"""
import functools
import hashlib
import os
import pickle
import re
import struct
import sys
import types

_ATOM = (int, float, complex, str, bool, type(None), bytes)


def _canon(obj, out, seen, depth=0):
    """Appends a canonical token stream for obj to `out` (list of str)."""
    if isinstance(obj, _ATOM):
        out.append(repr(obj))
        return
    oid = id(obj)
    if oid in seen:
        out.append('<ref %d>' % seen[oid])
        return
    seen[oid] = len(seen)
    if depth > 60:
        out.append('<deep>')
        return
    d = depth + 1
    if isinstance(obj, bytearray):
        out.append('bytearray(%r)' % bytes(obj))
    elif isinstance(obj, (list, tuple)):
        out.append('[' if isinstance(obj, list) else '(')
        for x in obj:
            _canon(x, out, seen, d)
            out.append(',')
        out.append(']')
    elif isinstance(obj, dict):
        out.append('{')
        for k in sorted(obj, key=repr):
            out.append(repr(k) if isinstance(k, _ATOM) else type(k).__name__)
            out.append(':')
            _canon(obj[k], out, seen, d)
            out.append(',')
        out.append('}')
    elif isinstance(obj, (set, frozenset)):
        out.append('set{' + ','.join(sorted(repr(x) for x in obj)) + '}')
    elif isinstance(obj, types.ModuleType):
        out.append('<module %s>' % obj.__name__)          # foreign modules are not descended into
    elif isinstance(obj, (types.FunctionType, types.LambdaType)):
        out.append('<function %s.%s' % (obj.__module__, obj.__qualname__))
        _canon(obj.__defaults__, out, seen, d)
        _canon(obj.__kwdefaults__, out, seen, d)
        if obj.__closure__:
            for cell in obj.__closure__:
                try:
                    _canon(cell.cell_contents, out, seen, d)
                except ValueError:
                    out.append('<empty cell>')
        if obj.__dict__:
            _canon(obj.__dict__, out, seen, d)
        out.append('>')
    elif isinstance(obj, functools.partial):
        out.append('<partial')
        _canon(obj.func, out, seen, d)
        _canon(obj.args, out, seen, d)
        _canon(obj.keywords, out, seen, d)
        out.append('>')
    elif isinstance(obj, re.Pattern):
        out.append('<re %r %d>' % (obj.pattern, obj.flags))
    elif isinstance(obj, type):
        out.append('<class %s.%s' % (obj.__module__, obj.__qualname__))
        if getattr(obj, '__module__', '').startswith('segno'):
            for k in sorted(vars(obj)):
                if k in ('__dict__', '__weakref__', '__doc__', '__module__', '__qualname__'):
                    continue
                v = vars(obj)[k]
                out.append(k + '=')
                if isinstance(v, (staticmethod, classmethod)):
                    v = v.__func__
                if isinstance(v, property):
                    v = (v.fget, v.fset)
                _canon(v, out, seen, d)
        out.append('>')
    elif isinstance(obj, (types.BuiltinFunctionType, types.MethodDescriptorType, types.WrapperDescriptorType, types.MethodWrapperType,
                          types.GetSetDescriptorType, types.MemberDescriptorType)):
        out.append('<builtin %s>' % getattr(obj, '__qualname__', getattr(obj, '__name__', '?')))
    elif isinstance(obj, types.MethodType):
        out.append('<method')
        _canon(obj.__func__, out, seen, d)
        _canon(obj.__self__, out, seen, d)
        out.append('>')
    else:
        out.append('<obj %s.%s' % (type(obj).__module__, type(obj).__qualname__))
        ci = getattr(obj, 'cache_info', None)
        if callable(ci):
            try:
                out.append('cache=%d' % ci().currsize)
            except Exception:
                pass
            w = getattr(obj, '__wrapped__', None)
            if w is not None:
                _canon(w, out, seen, d)
        dct = getattr(obj, '__dict__', None)
        if isinstance(dct, dict):
            _canon(dct, out, seen, d)
        for klass in type(obj).__mro__:
            for s in getattr(klass, '__slots__', ()) or ():
                if isinstance(s, str) and hasattr(obj, s):
                    out.append(s + '=')
                    _canon(getattr(obj, s), out, seen, d)
        if isinstance(obj, (tuple, list)):
            for x in obj:
                _canon(x, out, seen, d)
        out.append('>')


def library_state_hash(prefix='segno', only=None):
    """Canonical hash of everything reachable from the globals of the library's modules (only=<module name>: that module)."""
    out = []
    seen = {}
    for name in sorted(sys.modules):
        if only is not None and name != only:
            continue
        if name == prefix or name.startswith(prefix + '.'):
            mod = sys.modules[name]
            if mod is None:
                continue
            out.append('MODULE %s' % name)
            for k in sorted(vars(mod)):
                if k in ('__builtins__', '__cached__', '__loader__', '__spec__'):
                    continue
                out.append(k + '=')
                _canon(vars(mod)[k], out, seen)
    return hashlib.blake2b('\x00'.join(out).encode('utf-8', 'backslashreplace'), digest_size=12).hexdigest()


def obj_hash(obj):
    out = []
    _canon(obj, out, {})
    return hashlib.blake2b('\x00'.join(out).encode('utf-8', 'backslashreplace'), digest_size=12).hexdigest()


def run_forked(fn, timeout=600):
    """Runs fn() in a forked copy of this process and returns its (picklable) result; the parent is untouched."""
    r, w = os.pipe()
    pid = os.fork()
    if pid == 0:
        try:
            os.close(r)
            try:
                res = ('ok', fn())
            except BaseException as e:  # noqa
                import traceback
                res = ('error', traceback.format_exc())
            data = pickle.dumps(res)
            with os.fdopen(w, 'wb') as f:
                f.write(struct.pack('>Q', len(data)))
                f.write(data)
        finally:
            os._exit(0)
    os.close(w)
    with os.fdopen(r, 'rb') as f:
        head = f.read(8)
        data = f.read(struct.unpack('>Q', head)[0]) if len(head) == 8 else b''
    os.waitpid(pid, 0)
    if not data:
        return ('error', 'child died without a result')
    return pickle.loads(data)
