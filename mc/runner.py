"""E-space runner: bounded-exhaustive exploration of a finite case space on a worker pool.

A check module provides

    ID, LEVEL, TITLE, RULE
    gen_cases(tier)            -> iterable of JSON-able cases (a case may be a macro that expands in the worker)
    run_case(case, acc)        -> None; reports through the accumulator `acc`
    obligations(agg, tier)     -> list of strings (unmet coverage obligations = checker error, exit 2)
    KNOWN = {key: description} -> classifiers implemented by the check (a violation carries known=<key> only
                                  when the check's exact predicate matched)

Nothing here samples: every generated case is executed; VERIF_SEED only permutes the order in which chunks
are handed to workers.
"""
import hashlib
import json
import multiprocessing as mp
import os
import random
import subprocess
import sys
import time
import traceback

VERIF = os.path.dirname(os.path.dirname(os.path.abspath(__file__)))
MAX_VIOL_PER_KEY = 3          # replay files kept per violation family
MAX_LINES = 40                # VIOLATION lines printed
SET_CAP = 200000


class CheckerError(Exception):
    """The checking machinery itself is broken (exit status 2, never 1)."""


def jdefault(o):
    if isinstance(o, (bytes, bytearray)):
        return {'__b__': bytes(o).hex()}
    if isinstance(o, (set, frozenset)):
        return sorted(o, key=repr)
    if isinstance(o, tuple):
        return list(o)
    return repr(o)


def enc(o):
    """JSON-able encoding preserving bytes and tuples-as-lists."""
    if isinstance(o, (bytes, bytearray)):
        return {'__b__': bytes(o).hex()}
    if isinstance(o, (list, tuple)):
        return [enc(x) for x in o]
    if isinstance(o, dict):
        return {str(k): enc(v) for k, v in o.items()}
    if isinstance(o, float) and o != o:
        return 'nan'
    if o is None or isinstance(o, (str, int, float, bool)):
        return o
    return repr(o)


def dec(o):
    if isinstance(o, dict):
        if set(o) == {'__b__'}:
            return bytes.fromhex(o['__b__'])
        return {k: dec(v) for k, v in o.items()}
    if isinstance(o, list):
        return tuple(dec(x) for x in o)
    return o


def h8(obj):
    return hashlib.blake2b(repr(obj).encode('utf-8', 'backslashreplace'), digest_size=8).digest()


class Acc:
    """Per-chunk accumulator handed to run_case."""

    def __init__(self):
        self.evals = 0
        self.distinct = set()        # 8-byte hashes of distinct non-trivial cases
        self.states = set()          # 8-byte hashes of abstract configurations
        self.outcomes = set()        # 8-byte hashes of observed outcomes
        self.ctr = {}
        self.sets = {}
        self.viol = {}               # key -> [violation dicts]  (capped)
        self.vcount = {}             # key -> number of instances
        self.samples = []

    def eval(self, key, nontrivial=True, outcome=None, state=None):
        self.evals += 1
        if nontrivial:
            self.distinct.add(h8(key))
        if outcome is not None:
            self.outcomes.add(h8(outcome))
        if state is not None:
            self.states.add(h8(state))

    def count(self, name, n=1):
        self.ctr[name] = self.ctr.get(name, 0) + n

    def add(self, name, value):
        s = self.sets.setdefault(name, set())
        if len(s) < SET_CAP:
            s.add(value)

    def sample(self, obj):
        if len(self.samples) < 2:
            self.samples.append(enc(obj))

    def violation(self, key, msg, case, obs=None, exp=None, known=None):
        k = (key, known)
        self.vcount[k] = self.vcount.get(k, 0) + 1
        lst = self.viol.setdefault(k, [])
        if len(lst) < MAX_VIOL_PER_KEY:
            lst.append({'key': key, 'known': known, 'msg': msg, 'case': enc(case), 'obs': enc(obs), 'exp': enc(exp)})


class Agg(Acc):
    def merge(self, a):
        self.evals += a.evals
        self.distinct |= a.distinct
        self.states |= a.states
        self.outcomes |= a.outcomes
        for k, v in a.ctr.items():
            self.ctr[k] = self.ctr.get(k, 0) + v
        for k, v in a.sets.items():
            s = self.sets.setdefault(k, set())
            if len(s) < SET_CAP:
                s |= v
        for k, v in a.vcount.items():
            self.vcount[k] = self.vcount.get(k, 0) + v
        for k, v in a.viol.items():
            lst = self.viol.setdefault(k, [])
            for x in v:
                if len(lst) < MAX_VIOL_PER_KEY:
                    lst.append(x)
        for s in a.samples:
            if len(self.samples) < 6:
                self.samples.append(s)


_MOD = None


def _raised_in_library(tb):
    """True if the innermost frames of the traceback lie in the library under test (not in the checker)."""
    lib = os.path.join(os.environ.get('VERIF_REPO', '/repo'), 'segno') + os.sep
    frames = traceback.extract_tb(tb)
    return bool(frames) and frames[-1].filename.startswith(lib)


def _work(chunk):
    acc = Acc()
    try:
        for case in chunk:
            try:
                _MOD.run_case(case, acc)
            except Exception as e:
                # an exception escaping from the LIBRARY at a place where the check does not expect one is a finding about the
                # library (reported as a violation of the property being explored), not a defect of the checker
                if not _raised_in_library(e.__traceback__):
                    raise
                last = traceback.extract_tb(e.__traceback__)[-1]
                acc.violation('unexpected-exception/%s' % type(e).__name__,
                              'the library raised %s (%s) at %s:%d while the check was exploring case %r'
                              % (type(e).__name__, str(e)[:80], os.path.basename(last.filename), last.lineno, enc(case) if len(repr(case)) < 300 else '...'),
                              case)
    except BaseException:
        return ('error', traceback.format_exc(), None)
    return ('ok', None, acc)


def explore(mod, tier, seed, jobs):
    global _MOD
    _MOD = mod
    cases = list(mod.gen_cases(tier))
    focus = os.environ.get('VERIF_FOCUS')
    if focus:
        # audit mode (tools/table_audit.py): only the cases that name the focused version; coverage obligations do not apply
        def names(c):
            return any(str(x) == focus for x in c) if isinstance(c, (list, tuple)) else False
        cases = [c for c in cases if names(c)] or cases
    if not cases:
        raise CheckerError('no cases generated')
    csize = getattr(mod, 'CHUNK', None) or max(1, min(64, len(cases) // (jobs * 8) or 1))
    chunks = [cases[i:i + csize] for i in range(0, len(cases), csize)]
    random.Random(seed).shuffle(chunks)
    agg = Agg()
    agg.ctr['cases_generated'] = len(cases)
    if jobs <= 1:
        for ch in chunks:
            st, err, acc = _work(ch)
            if st != 'ok':
                raise CheckerError('worker failed:\n' + err)
            agg.merge(acc)
    else:
        ctx = mp.get_context('fork')
        with ctx.Pool(jobs) as pool:
            for st, err, acc in pool.imap_unordered(_work, chunks):
                if st != 'ok':
                    pool.terminate()
                    raise CheckerError('worker failed:\n' + err)
                agg.merge(acc)
    return agg


def load_known(prop):
    res = {}
    path = os.path.join(VERIF, 'KNOWN_FINDINGS.txt')
    if os.path.exists(path):
        for line in open(path, encoding='utf-8'):
            line = line.strip()
            if not line.startswith('known:'):
                continue
            parts = line.split(None, 3)
            if len(parts) < 3:
                continue
            kv = dict(p.split('=', 1) for p in parts[1:3] if '=' in p)
            if kv.get('property') == prop and 'key' in kv:
                res[kv['key']] = parts[3] if len(parts) > 3 else ''
    return res


def write_replay(prop, v):
    d = os.environ.get('VERIF_REPLAY_DIR') or os.path.join(VERIF, 'replays')
    os.makedirs(d, exist_ok=True)
    body = json.dumps({'property': prop, **v}, indent=1, sort_keys=True, default=jdefault)
    name = '%s-%s.json' % (prop, hashlib.blake2b(body.encode(), digest_size=6).hexdigest())
    path = os.path.join(d, name)
    with open(path, 'w') as f:
        f.write(body + '\n')
    return path


def confirm_fresh(prop, path):
    """Re-executes one violation alone in a fresh interpreter; returns True if it is reported again."""
    env = dict(os.environ)
    env['VERIF_NO_CONFIRM'] = '1'
    try:
        p = subprocess.run([sys.executable, os.path.join(VERIF, 'check'), prop, '--replay', path],
                           capture_output=True, text=True, timeout=600, env=env)
    except subprocess.TimeoutExpired:
        return None
    return p.returncode == 1 and 'VIOLATION' in p.stdout


def finish(mod, tier, seed, agg, t0, extra_cov=None, assumptions=None):
    prop = mod.ID
    listed = load_known(prop)
    lines = []
    nviol = 0
    known_counts = {}
    unconfirmed = 0
    for (key, known), vs in sorted(agg.viol.items(), key=lambda kv: repr(kv[0])):
        n = agg.vcount[(key, known)]
        if known is not None and known in listed:
            known_counts[known] = known_counts.get(known, 0) + n
            continue
        nviol += n
        for i, v in enumerate(vs):
            path = write_replay(prop, v)
            note = ''
            if i == 0 and not os.environ.get('VERIF_NO_CONFIRM') and os.environ.get('VERIF_CONFIRM', '1') != '0':
                ok = confirm_fresh(prop, path)
                if ok is False:
                    unconfirmed += 1
                    note = ' [NOT reproduced alone in a fresh interpreter: history-dependent]'
            if len(lines) < MAX_LINES:
                lines.append('VIOLATION property=%s replay=%s key=%s instances=%d %s%s'
                             % (prop, path, key, n, v['msg'][:300], note))
    for k, n in sorted(known_counts.items()):
        print('KNOWN-FINDING: property=%s key=%s instances=%d %s' % (prop, k, n, listed[k]))
    for ln in lines:
        print(ln)
    failed = []
    try:
        failed = list(mod.obligations(agg, tier)) if hasattr(mod, 'obligations') and not os.environ.get('VERIF_FOCUS') else []
    except Exception:
        failed = ['obligations() crashed: ' + traceback.format_exc()]
    cov = {
        'evaluations': agg.evals,
        'distinct_nontrivial': len(agg.distinct),
        'rule': mod.RULE,
        'samples': agg.samples or ['(none)'],
        'exhaustive': not failed,
        'states': max(1, len(agg.states)),
        'transitions': agg.evals,
        'traces_validated_against_impl': agg.evals,
        'distinct_outcomes': len(agg.outcomes),
        'counters': dict(sorted(agg.ctr.items())),
        'set_sizes': {k: len(v) for k, v in sorted(agg.sets.items())},
        'sets_small': {k: sorted(v, key=repr) for k, v in sorted(agg.sets.items()) if len(v) <= 48},
        'known_finding_instances': known_counts,
        'violation_families': {('%s|%s' % k): n for k, n in agg.vcount.items()},
        'unmet_obligations': failed,
        'bounds': getattr(mod, 'BOUNDS', {}).get(tier, ''),
    }
    if extra_cov:
        cov.update(extra_cov)
    ev = {
        'property_id': prop, 'tier': tier, 'seed': seed, 'level': mod.LEVEL, 'coverage': cov,
        'assumptions': list(assumptions or getattr(mod, 'ASSUMPTIONS', [])),
        'wall_s': round(time.time() - t0, 2), 'violations': nviol,
        'repo': os.environ.get('VERIF_REPO', '/repo'),
    }
    evdir = os.environ.get('VERIF_EVIDENCE_DIR') or os.path.join(VERIF, 'evidence')
    os.makedirs(evdir, exist_ok=True)
    with open(os.path.join(evdir, prop + '.json'), 'w') as f:
        json.dump(ev, f, indent=1, sort_keys=True, default=jdefault)
        f.write('\n')
    print('%s %s: evaluations=%d distinct_nontrivial=%d states=%d outcomes=%d violations=%d known=%s wall=%.1fs'
          % (prop, tier, agg.evals, len(agg.distinct), len(agg.states), len(agg.outcomes), nviol,
             known_counts, time.time() - t0))
    if failed:
        for f_ in failed:
            print('CHECKER-ERROR: unmet coverage obligation: %s' % f_)
    if nviol:
        return 1
    if failed:
        return 2
    return 0


def replay(mod, path):
    v = json.load(open(path))
    case = dec(v['case'])
    acc = Acc()
    mod.run_case(case, acc)
    listed = load_known(mod.ID)
    rc = 0
    for (key, known), vs in acc.viol.items():
        for x in vs:
            if known is not None and known in listed:
                print('KNOWN-FINDING: property=%s key=%s %s' % (mod.ID, known, x['msg'][:300]))
            else:
                print('VIOLATION property=%s replay=%s key=%s %s' % (mod.ID, path, key, x['msg'][:400]))
                print('  observed: %s' % json.dumps(x['obs'], default=jdefault)[:600])
                print('  expected: %s' % json.dumps(x['exp'], default=jdefault)[:600])
                rc = 1
    if rc == 0:
        print('replay: no violation for this case (evaluations=%d)' % acc.evals)
    return rc
