"""E-sched: stateless enumeration of two-thread schedules of the real library under a cooperative scheduler.

Exactly one thread runs at any time (baton = one semaphore per thread).  Scheduling points are trace events inside the
library's source files: 'call' (function granularity), 'line', or 'opcode'.  A schedule is (start thread, list of
preemption points); a preemption point is the local step number at which the running thread hands the baton to the
other one.  All schedules with at most p preemptions are enumerated (iterative context bounding); every execution runs
to completion.  Replaying a schedule must give identical observations and step counts (divergence = hard error)."""
import sys
import threading


class Deadlock(Exception):
    pass


class Divergence(Exception):
    pass


class Execution:
    def __init__(self, fns, libdir, start=0, switches=(), gran='line', wait=60.0):
        self.fns = fns
        self.libdir = libdir
        self.start = start
        self.switches = list(switches)      # local step numbers, alternating threads beginning with `start`
        self.gran = gran
        self.wait = wait
        self.sems = [threading.Semaphore(0), threading.Semaphore(0)]
        self.main = threading.Semaphore(0)
        self.done = [False, False]
        self.results = [None, None]
        self.steps = [0, 0]
        self.next_switch = 0                 # index into self.switches
        self.running = start
        self.preemptions = 0
        self.error = None

    # -- scheduling point -------------------------------------------------------------------
    def _point(self, tid):
        self.steps[tid] += 1
        i = self.next_switch
        if i < len(self.switches) and self.running == tid and self.steps[tid] == self.switches[i]:
            other = 1 - tid
            self.next_switch += 1
            if not self.done[other]:
                self.preemptions += 1
                self.running = other
                self.sems[other].release()
                if not self.sems[tid].acquire(timeout=self.wait):
                    self.error = Deadlock('thread %d never got the baton back' % tid)
                    raise self.error

    def _tracer(self, tid):
        libdir = self.libdir
        gran = self.gran
        point = self._point

        def local(frame, event, arg):
            if event == gran:
                point(tid)
            return local

        def glob(frame, event, arg):
            if not frame.f_code.co_filename.startswith(libdir):
                return None
            if gran == 'call':
                point(tid)
                return None
            if gran == 'opcode':
                frame.f_trace_opcodes = True
                frame.f_trace_lines = False
            return local
        return glob

    def _run(self, tid):
        if not self.sems[tid].acquire(timeout=self.wait):
            self.error = Deadlock('thread %d never started' % tid)
            return
        sys.settrace(self._tracer(tid))
        try:
            self.results[tid] = self.fns[tid]()
        except BaseException as e:  # noqa
            self.results[tid] = ('THREAD-EXC', type(e).__name__, str(e)[:200])
        finally:
            sys.settrace(None)
            self.done[tid] = True
            other = 1 - tid
            if not self.done[other]:
                self.running = other
                self.sems[other].release()
            else:
                self.main.release()

    def run(self):
        ths = [threading.Thread(target=self._run, args=(i,), daemon=True) for i in range(2)]
        for t in ths:
            t.start()
        self.sems[self.start].release()
        if not self.main.acquire(timeout=self.wait * 4):
            raise Deadlock('no enabled thread / execution did not finish')
        for t in ths:
            t.join(self.wait)
        if self.error:
            raise self.error
        return self.results, tuple(self.steps), self.preemptions


def schedules(steps, bound):
    """All (start, switches) with at most `bound` preemptions for two threads with the given step counts."""
    for start in (0, 1):
        yield (start, ())
    if bound >= 1:
        for start in (0, 1):
            for k in range(1, steps[start] + 1):
                yield (start, (k,))
    if bound >= 2:
        for start in (0, 1):
            other = 1 - start
            for k1 in range(1, steps[start] + 1):
                for k2 in range(1, steps[other] + 1):
                    yield (start, (k1, k2))


def count_schedules(steps, bound):
    n = 2
    if bound >= 1:
        n += steps[0] + steps[1]
    if bound >= 2:
        n += 2 * steps[0] * steps[1]
    return n
