"""E-sched: stateless enumeration of two-thread schedules of the real library under a cooperative scheduler.

Exactly one thread runs at any time (baton = one semaphore per thread).  Scheduling points are trace events inside the
library's source files: 'call' (function granularity), 'line', 'opcode', or 'shared' (the bytecode instructions that
access module-level mutable state or names rebound with `global` - see shared_offsets).  A schedule is (start thread, list of
preemption points); a preemption point is the local step number at which the running thread hands the baton to the
other one.  All schedules with at most p preemptions are enumerated (iterative context bounding); every execution runs
to completion.  Replaying a schedule must give identical observations and step counts (divergence = hard error)."""
import dis
import functools
import re
import sys
import threading
import types

_IMMUTABLE = (types.FunctionType, types.BuiltinFunctionType, types.MethodDescriptorType, type, types.ModuleType, int, float, complex, str, bytes, bool,
              type(None), frozenset, re.Pattern, functools.partial, range, type(Ellipsis), type(NotImplemented))
_DECLARED = {}
_SHARED = {}


def _mutable(v, depth=0):
    if isinstance(v, tuple):
        return depth > 3 or any(_mutable(x, depth + 1) for x in v)
    return not isinstance(v, _IMMUTABLE)


def _codes(obj, seen):
    """all code objects reachable from a module-level value (functions, classes, nested functions)"""
    if isinstance(obj, (staticmethod, classmethod)):
        obj = obj.__func__
    if isinstance(obj, property):
        for f in (obj.fget, obj.fset, obj.fdel):
            if f is not None:
                yield from _codes(f, seen)
        return
    if isinstance(obj, functools.partial):
        obj = obj.func
    obj = getattr(obj, '__wrapped__', obj)
    if isinstance(obj, types.FunctionType):
        obj = obj.__code__
    if isinstance(obj, types.CodeType):
        if id(obj) in seen:
            return
        seen.add(id(obj))
        yield obj
        for c in obj.co_consts:
            if isinstance(c, types.CodeType):
                yield from _codes(c, seen)
    elif isinstance(obj, type):
        if id(obj) in seen:
            return
        seen.add(id(obj))
        for v in vars(obj).values():
            yield from _codes(v, seen)


_MUTABLE_PARAMS = {}


def mutable_default_params(modname):
    """{code object id: names of parameters whose default value is a mutable object} for the functions of a module - a default
    argument is created once and shared by every call (a classic place for a hidden cache or scratch buffer)"""
    if modname not in _MUTABLE_PARAMS:
        res = {}
        mod = sys.modules.get(modname)

        def visit(fn):
            if isinstance(fn, (staticmethod, classmethod)):
                fn = fn.__func__
            fn = getattr(fn, '__wrapped__', fn)
            if not isinstance(fn, types.FunctionType):
                return
            code = fn.__code__
            names = set()
            pos = code.co_varnames[:code.co_argcount]
            for name, val in zip(pos[len(pos) - len(fn.__defaults__ or ()):], fn.__defaults__ or ()):
                if _mutable(val):
                    names.add(name)
            for name, val in (fn.__kwdefaults__ or {}).items():
                if _mutable(val):
                    names.add(name)
            if names:
                res[id(code)] = (code, names)
        for v in list(vars(mod).values()) if mod is not None else ():
            if isinstance(v, type) and getattr(v, '__module__', None) == modname:
                for m in vars(v).values():
                    visit(m)
            elif getattr(v, '__module__', None) == modname:
                visit(v)
        _MUTABLE_PARAMS[modname] = res
    return _MUTABLE_PARAMS[modname]


def declared_globals(modname):
    """names some function of the module rebinds with a `global` statement"""
    if modname not in _DECLARED:
        names = set()
        mod = sys.modules.get(modname)
        seen = set()
        for v in list(vars(mod).values()) if mod is not None else ():
            if getattr(v, '__module__', modname) != modname and not isinstance(v, types.CodeType):
                continue
            for code in _codes(v, seen):
                for ins in dis.get_instructions(code):
                    if ins.opname in ('STORE_GLOBAL', 'DELETE_GLOBAL'):
                        names.add(ins.argval)
        _DECLARED[modname] = names
    return _DECLARED[modname]


def shared_offsets(code, globs):
    """instruction offsets of `code` that access state shared between threads: module-level names that are rebound somewhere with
    `global`, module-level mutable objects (dict, list, set, instances), the same reached as attributes of an imported module, and
    parameters whose default value is a mutable object"""
    key = id(code)
    hit = _SHARED.get(key)
    if hit is not None and hit[0] is code:
        return hit[1]
    modname = globs.get('__name__', '')
    declared = declared_globals(modname)
    out = set()
    ins = list(dis.get_instructions(code))
    hit = mutable_default_params(modname).get(id(code))
    shared_params = hit[1] if hit is not None and hit[0] is code else ()
    for i, x in enumerate(ins):
        if x.opname in ('STORE_GLOBAL', 'DELETE_GLOBAL'):
            out.add(x.offset)
        elif shared_params and x.opname.startswith(('LOAD_FAST', 'STORE_FAST')) and x.argval in shared_params:
            out.add(x.offset)
        elif x.opname == 'LOAD_GLOBAL':
            name = x.argval
            if name in declared:
                out.add(x.offset)
                continue
            if name not in globs:
                continue                               # builtin
            val = globs[name]
            if isinstance(val, types.ModuleType):
                j = i + 1
                if j < len(ins) and ins[j].opname in ('LOAD_ATTR', 'LOAD_METHOD', 'STORE_ATTR', 'DELETE_ATTR'):
                    attr = ins[j].argval
                    if ins[j].opname in ('STORE_ATTR', 'DELETE_ATTR') or attr in declared_globals(val.__name__) or _mutable(getattr(val, attr, None)):
                        out.add(ins[j].offset)
            elif _mutable(val):
                out.add(x.offset)
    res = frozenset(out)
    _SHARED[key] = (code, res)
    return res


class Deadlock(Exception):
    pass


class Divergence(Exception):
    pass


def _warm_opcode_tracing():
    """CPython 3.12 delivers no 'opcode' events to the first thread that asks for them in a process (the instruction events are
    switched on interpreter-wide only after the first request); asking once on the calling thread makes both worker threads equal."""
    def tr(frame, event, arg):
        frame.f_trace_opcodes = True
        return tr

    def dummy():
        return 1 + 1
    old = sys.gettrace()
    sys.settrace(tr)
    try:
        dummy()
    finally:
        sys.settrace(old)


class Execution:
    def __init__(self, fns, libdir, start=0, switches=(), gran='line', wait=60.0):
        self.fns = fns
        self.libdir = libdir
        self.start = start
        self.switches = list(switches)      # local step numbers, alternating threads beginning with `start`
        self.gran = gran
        self.wait = wait
        self.sems = [threading.Semaphore(0), threading.Semaphore(0)]
        self.main = threading.Semaphore(0)
        self.done = [False, False]
        self.results = [None, None]
        self.steps = [0, 0]
        self.next_switch = 0                 # index into self.switches
        self.running = start
        self.preemptions = 0
        self.error = None

    # -- scheduling point -------------------------------------------------------------------
    def _point(self, tid):
        self.steps[tid] += 1
        i = self.next_switch
        if i < len(self.switches) and self.running == tid and self.steps[tid] == self.switches[i]:
            other = 1 - tid
            self.next_switch += 1
            if not self.done[other]:
                self.preemptions += 1
                self.running = other
                self.sems[other].release()
                if not self.sems[tid].acquire(timeout=self.wait):
                    self.error = Deadlock('thread %d never got the baton back' % tid)
                    raise self.error

    def _tracer(self, tid):
        libdir = self.libdir
        gran = self.gran
        point = self._point

        def local(frame, event, arg):
            if event == gran:
                point(tid)
            return local

        window = {}          # frame id -> number of line events that are still scheduling points ('sharedw')
        wsize = 6 if gran == 'sharedw' else 0

        def local_shared(frame, event, arg):
            if event == 'opcode':
                if frame.f_lasti in shared_offsets(frame.f_code, frame.f_globals):
                    point(tid)
                    if wsize:
                        # an object fetched from shared state is usually used through a local name afterwards: the next few lines
                        # of this frame are scheduling points as well
                        window[id(frame)] = wsize
                        frame.f_trace_lines = True
            elif event == 'line':
                left = window.get(id(frame), 0)
                if left > 0:
                    window[id(frame)] = left - 1
                    point(tid)
                    if left == 1:
                        frame.f_trace_lines = False
            elif event == 'return':
                window.pop(id(frame), None)
            return local_shared

        def glob(frame, event, arg):
            if not frame.f_code.co_filename.startswith(libdir):
                return None
            if gran in ('shared', 'sharedw'):
                # partial-order reduction: a context switch matters only immediately before an access to state that both threads can
                # reach; frames without such an access run untraced
                if not shared_offsets(frame.f_code, frame.f_globals):
                    return None
                frame.f_trace_opcodes = True
                frame.f_trace_lines = False
                return local_shared
            if gran == 'call':
                point(tid)
                return None
            if gran == 'opcode':
                frame.f_trace_opcodes = True
                frame.f_trace_lines = False
            return local
        return glob

    def _run(self, tid):
        if not self.sems[tid].acquire(timeout=self.wait):
            self.error = Deadlock('thread %d never started' % tid)
            return
        sys.settrace(self._tracer(tid))
        try:
            self.results[tid] = self.fns[tid]()
        except BaseException as e:  # noqa
            self.results[tid] = ('THREAD-EXC', type(e).__name__, str(e)[:200])
        finally:
            sys.settrace(None)
            self.done[tid] = True
            other = 1 - tid
            if not self.done[other]:
                self.running = other
                self.sems[other].release()
            else:
                self.main.release()

    def run(self):
        if self.gran in ('opcode', 'shared', 'sharedw'):
            _warm_opcode_tracing()
        ths = [threading.Thread(target=self._run, args=(i,), daemon=True) for i in range(2)]
        for t in ths:
            t.start()
        self.sems[self.start].release()
        if not self.main.acquire(timeout=self.wait * 4):
            raise Deadlock('no enabled thread / execution did not finish')
        for t in ths:
            t.join(self.wait)
        if self.error:
            raise self.error
        return self.results, tuple(self.steps), self.preemptions


def schedules(steps, bound):
    """All (start, switches) with at most `bound` preemptions for two threads with the given step counts."""
    for start in (0, 1):
        yield (start, ())
    if bound >= 1:
        for start in (0, 1):
            for k in range(1, steps[start] + 1):
                yield (start, (k,))
    if bound >= 2:
        for start in (0, 1):
            other = 1 - start
            for k1 in range(1, steps[start] + 1):
                for k2 in range(1, steps[other] + 1):
                    yield (start, (k1, k2))


def count_schedules(steps, bound):
    n = 2
    if bound >= 1:
        n += steps[0] + steps[1]
    if bound >= 2:
        n += 2 * steps[0] * steps[1]
    return n
