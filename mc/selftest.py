"""Self-validation of the oracle on material that does not come from segno's code: ISO/IEC 18004 figures
(Figure 1, Annex I worked examples, Figure 29 Structured Append example) and algebraic identities.
A checker that fails here aborts with exit status 2 (never 1)."""
import os
from qrref import tables as T, decode as D, rs as RS, stream as S, layout as Lo, mask as M

FIX = os.path.join(os.path.dirname(os.path.dirname(os.path.abspath(__file__))), 'fixtures')


def load(name):
    with open(os.path.join(FIX, name + '.txt')) as f:
        return [[int(c) for c in line.strip()] for line in f if line.strip()]


def expect(cond, msg):
    if not cond:
        raise RuntimeError('self-test failed: ' + msg)


_done = False


def run():
    global _done
    if _done:
        return
    # ISO Figure 1: "QR Code Symbol", 1-M
    r = D.read(load('iso-fig-1'))
    expect(r.ok and r.version == 1 and r.level == 'M' and r.payload == b'QR Code Symbol', 'ISO Figure 1: %s' % r.problems)
    # Annex I.2 / I.3: "01234567" as 1-M and M2-L
    r = D.read(load('iso-i2'))
    expect(r.ok and (r.version, r.level) == (1, 'M') and r.payload == b'01234567', 'ISO I.2: %s' % r.problems)
    expect([s.mode for s in r.segments] == ['numeric'], 'ISO I.2 mode')
    r = D.read(load('iso-i3'))
    expect(r.ok and (r.version, r.level) == ('M2', 'L') and r.payload == b'01234567', 'ISO I.3: %s' % r.problems)
    # Figure 29: four symbols in Structured Append
    payload = b''
    pars = set()
    for i in range(4):
        r = D.read(load('seq-iso-04-%02d' % (i + 1)))
        expect(r.ok and r.sa is not None and r.sa[0] == i and r.sa[1] == 3, 'ISO Fig 29 symbol %d: %s %s' % (i, r.problems, r.sa))
        pars.add(r.sa[2])
        payload += r.payload
    par = 0
    for b in payload:
        par ^= b
    expect(pars == {par}, 'ISO Fig 29 parity %s vs %s' % (pars, par))
    expect(payload == b'ABCDEFGHIJKLMNOPQRSTUVWXYZ0123456789ABCDEFGHIJKLMNOPQRSTUVWXYZ', 'ISO Fig 29 payload %r' % payload)
    # the I.2 example reproduced by the reference encoder, bit for bit
    m = S.build_matrix([('numeric', b'01234567', None)], 1, 'M', D.read(load('iso-i2')).mask)
    expect(m == load('iso-i2'), 'reference encoder does not reproduce ISO I.2')
    m = S.build_matrix([('numeric', b'01234567', None)], 'M2', 'L', D.read(load('iso-i3')).mask)
    expect(m == load('iso-i3'), 'reference encoder does not reproduce ISO I.3')
    # ISO Table C.1 / D.1 spot values
    expect(T.format_word(1, 'M', 0) == 0x5412 and T.format_word(1, 'L', 0) == 0x77c4, 'format words')
    expect(T.format_word(1, 'H', 7) == 0x083b and T.format_word('M1', None, 0) == 0x4445, 'format words (2)')
    expect(T.version_word(7) == 0x07c94 and T.version_word(40) == 0x28c69, 'version words')
    # codeword totals of ISO Table 1 from geometry
    expect([T.total_codewords(v) for v in (1, 2, 7, 14, 21, 32, 40)] == [26, 44, 196, 581, 1156, 2465, 3706], 'codeword totals')
    expect(T.data_bits(40, 'L') == 2956 * 8 and T.data_bits(1, 'H') == 72 and T.data_bits(27, 'Q') == 808 * 8, 'data capacity')
    expect(T.alignment_centres(32) == [6, 34, 60, 86, 112, 138] and T.alignment_centres(36) == [6, 24, 50, 76, 102, 128, 154]
           and T.alignment_centres(7) == [6, 22, 38], 'alignment centres')
    # Reed-Solomon: encode -> zero syndromes; t errors corrected; generator of degree 7 as printed in Annex A
    expect(T.gen_poly(7)[1:] == [T.EXP[e] for e in (87, 229, 146, 149, 238, 102, 21)], 'generator polynomial 7')
    for ec in (2, 5, 7, 10, 13, 17, 22, 30):
        data = [(i * 37 + ec) & 255 for i in range(19)]
        cw = RS.encode(data, ec)
        expect(not any(RS.syndromes(cw, ec)), 'RS syndromes ec=%d' % ec)
        bad = list(cw)
        for k in range(ec // 2):
            bad[(k * 5 + 1) % len(bad)] ^= (k + 1) * 17 & 255 or 1
        fixed, n = RS.correct(bad, ec)
        expect(fixed == cw, 'RS correction ec=%d' % ec)
    # reference encoder round trip through the reference reader (one symbol per kind)
    for ver, lvl, parts in ((5, 'Q', [('byte', b'\x00\xff abc', None), ('kanji', b'\x93\x5f', None)]),
                            ('M4', 'Q', [('alphanumeric', b'A1', None)]), ('M1', None, [('numeric', b'123', None)]),
                            (7, 'H', [('hanzi', b'\xca\xe9', None), ('byte', b'\xe4', 26)])):
        m = S.build_matrix(parts, ver, lvl, 2)
        r = D.read(m)
        expect(r.ok and r.payload == b''.join(p[1] for p in parts) and r.mask == 2 and r.level == lvl,
               'reference round trip %s-%s: %s' % (ver, lvl, r.problems))
    # penalty scorer on the I.2 symbol: the mask ISO chose must be among the optimal ones
    r = D.read(load('iso-i3'))
    best, _ = M.best_masks(load('iso-i3'), 'M2', r.mask)
    expect(r.mask in best, 'Micro mask evaluation vs ISO I.3 (%s not in %s)' % (r.mask, best))
    _done = True
