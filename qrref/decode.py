"""Reference reader: module matrix -> structure report + payload (ISO/IEC 18004, no error tolerance:
every deviation from the standard is reported, nothing is silently repaired)."""
from . import tables as T
from . import layout as Lo
from . import rs as RS


class Report:
    """Result of reading a symbol."""
    def __init__(self):
        self.problems = []      # list of strings; empty = fully conformant as far as read
        self.version = None
        self.level = None
        self.mask = None
        self.format_words = None
        self.version_words = None
        self.codewords = None   # raw sequence as placed (ints; M1/M3 half codeword as value<<4 in its data position)
        self.blocks = None      # list of (data_list, ec_list)
        self.syndromes_ok = None
        self.data_codewords = None
        self.data_bits = None   # list of bits (length = data capacity)
        self.remainder = None   # remainder bits (unmasked)
        self.segments = None    # parsed segments
        self.sa = None          # (index, total-1, parity) or None
        self.terminator = None  # number of terminator bits found (all zero)
        self.after = None       # bits after terminator (padding as found)
        self.payload = None     # concatenated payload bytes
        self.partial = None     # bytes read from a segment that ran out of data (cut stream)

    def bad(self, msg):
        self.problems.append(msg)

    @property
    def ok(self):
        return not self.problems


def read(matrix, parse=True):
    rep = Report()
    size = len(matrix)
    if any(len(r) != size for r in matrix):
        rep.bad('not square')
        return rep
    ver = T.version_of_size(size)
    if ver is None:
        rep.bad('illegal size %d' % size)
        return rep
    rep.version = ver
    micro = T.is_micro(ver)
    cls, val = Lo.function_map(ver)
    for i in range(size):
        row = matrix[i]
        for j in range(size):
            v = row[j]
            if v not in (0, 1):
                rep.bad('module (%d,%d) has value %r' % (i, j, v))
                return rep
            fv = val[i][j]
            if fv is not None and fv != v:
                rep.bad('function module (%d,%d) [%s] is %d, expected %d' % (i, j, cls[i][j], v, fv))
    # format information
    c1, c2 = Lo.format_positions(ver)
    words = []
    for pos in (c1, c2):
        if pos is None:
            continue
        w = 0
        for bit, (i, j) in enumerate(pos):
            w |= matrix[i][j] << bit
        words.append(w)
    rep.format_words = words
    fmask = T.FORMAT_MASK_MICRO if micro else T.FORMAT_MASK_QR
    decoded = []
    for w in words:
        raw = w ^ fmask
        d5 = raw >> 10
        if T.bch_format(d5) != raw:
            rep.bad('format word %04x is not a BCH(15,5) codeword' % w)
        decoded.append(d5)
    if len(set(words)) != 1:
        rep.bad('format copies differ: %s' % ['%04x' % w for w in words])
    d5 = decoded[0]
    if micro:
        sym, level = T.MICRO_NUMBER_SYMBOL[d5 >> 2]
        mask = d5 & 3
        if sym != ver:
            rep.bad('format info says %s but size says %s' % (sym, ver))
            return rep
    else:
        level = T.QR_BITS_LEVEL[d5 >> 3]
        mask = d5 & 7
    rep.level, rep.mask = level, mask
    # version information
    if not micro and ver >= 7:
        ur, ll = Lo.version_positions(ver)
        vw = []
        for pos in (ur, ll):
            w = 0
            for bit, (i, j) in enumerate(pos):
                w |= matrix[i][j] << bit
            vw.append(w)
        rep.version_words = vw
        exp = T.version_word(ver)
        for w in vw:
            if w != exp:
                rep.bad('version word %05x, expected %05x' % (w, exp))
    # codewords
    pos = Lo.data_positions(ver)
    bits = [matrix[i][j] ^ Lo.mask_bit(ver, mask, i, j) for (i, j) in pos]
    blocks_spec = T.blocks(ver, level)
    total = sum(t for t, _ in blocks_spec)
    half = T.has_half_codeword(ver)
    nbits = total * 8 - (4 if half else 0)
    if len(bits) != nbits + T.remainder_bits(ver):
        rep.bad('internal: %d data modules, expected %d' % (len(bits), nbits + T.remainder_bits(ver)))
        return rep
    rep.remainder = bits[nbits:]
    if any(rep.remainder):
        rep.bad('remainder bits not zero: %s' % rep.remainder)
    ndata = sum(d for _, d in blocks_spec)
    cws = []
    p = 0
    for k in range(total):
        if half and k == ndata - 1:
            v = 0
            for b in bits[p:p + 4]:
                v = (v << 1) | b
            cws.append(v << 4)
            p += 4
        else:
            v = 0
            for b in bits[p:p + 8]:
                v = (v << 1) | b
            cws.append(v)
            p += 8
    rep.codewords = cws
    # de-interleave
    nb = len(blocks_spec)
    data = [[] for _ in range(nb)]
    ecs = [[] for _ in range(nb)]
    it = iter(cws)
    maxd = max(d for _, d in blocks_spec)
    for k in range(maxd):
        for b, (t, d) in enumerate(blocks_spec):
            if k < d:
                data[b].append(next(it))
    maxe = max(t - d for t, d in blocks_spec)
    for k in range(maxe):
        for b, (t, d) in enumerate(blocks_spec):
            if k < t - d:
                ecs[b].append(next(it))
    rep.blocks = list(zip(data, ecs))
    ok = True
    for b, (t, d) in enumerate(blocks_spec):
        s = RS.syndromes(data[b] + ecs[b], t - d)
        if any(s):
            ok = False
            rep.bad('block %d of %s-%s: non-zero syndromes' % (b, ver, level))
    rep.syndromes_ok = ok
    dcw = [c for blk in data for c in blk]
    rep.data_codewords = dcw
    dbits = []
    for k, c in enumerate(dcw):
        if half and k == len(dcw) - 1:
            dbits.extend((c >> s) & 1 for s in (7, 6, 5, 4))
        else:
            dbits.extend((c >> s) & 1 for s in range(7, -1, -1))
    rep.data_bits = dbits
    if len(dbits) != T.data_bits(ver, level):
        rep.bad('internal: data bits %d != capacity %d' % (len(dbits), T.data_bits(ver, level)))
    if parse:
        try:
            parse_stream(rep)
        except Exception as e:          # the reader reports, it never crashes on garbage
            rep.bad('data stream cannot be parsed (%s: %s)' % (type(e).__name__, e))
            if rep.segments is None:
                rep.segments = []
                rep.payload = b''
    return rep


class Seg:
    def __init__(self, mode, count, data, eci=None, bits=0):
        self.mode, self.count, self.data, self.eci, self.bits = mode, count, data, eci, bits

    def __repr__(self):
        return 'Seg(%s,%d,%r,eci=%r)' % (self.mode, self.count, self.data, self.eci)


def parse_stream(rep):
    ver = rep.version
    bits = rep.data_bits
    n = len(bits)
    p = 0
    micro = T.is_micro(ver)
    segs = []
    pending_eci = None
    data = bytearray()

    def take(k):
        nonlocal p
        if p + k > n:
            raise EOFError
        v = 0
        for b in bits[p:p + k]:
            v = (v << 1) | b
        p += k
        return v

    mi_bits = T.mode_ind_bits(ver)
    term_len = T.terminator_bits(ver)
    first = True
    try:
        while True:
            # terminator?  (may be truncated / absent if capacity is exhausted)
            rest = n - p
            if rest == 0:
                rep.terminator = 0
                break
            if micro:
                tl = min(term_len, rest)
                # Micro QR: the terminator is term_len zero bits (fewer if the capacity is exhausted);
                # every real segment header contains a 1 within its first term_len bits or has count 0.
                if not any(bits[p:p + tl]):
                    rep.terminator = tl
                    p += tl
                    break
                if rest < term_len:
                    rep.bad('stream ends inside a segment header')
                    break
                mi = take(mi_bits) if mi_bits else 0
                if mi > 3:
                    rep.bad('unknown Micro QR mode indicator %s at bit %d' % (bin(mi), p - mi_bits))
                    break
                mode = {0: 'numeric', 1: 'alphanumeric', 2: 'byte', 3: 'kanji'}[mi]
                if not T.mode_supported(mode, ver):
                    rep.bad('mode %s not available in %s' % (mode, ver))
                    break
            else:
                if rest < 4:
                    if any(bits[p:]):
                        rep.bad('non-zero bits in truncated terminator')
                    rep.terminator = rest
                    p = n
                    break
                ind = take(4)
                if ind == 0:
                    rep.terminator = 4
                    break
                if ind == T.QR_MODE_IND['sa']:
                    if not first:
                        rep.bad('structured append header not at the start')
                    idx = take(4)
                    tot = take(4)
                    par = take(8)
                    rep.sa = (idx, tot, par)
                    first = False
                    continue
                if ind == T.QR_MODE_IND['eci']:
                    b0 = take(8)
                    if b0 & 0x80 == 0:
                        num = b0
                    elif b0 & 0xc0 == 0x80:
                        num = ((b0 & 0x3f) << 8) | take(8)
                    else:
                        num = ((b0 & 0x1f) << 16) | take(16)
                    if pending_eci is not None:
                        rep.bad('two ECI headers in a row')
                    pending_eci = num
                    first = False
                    continue
                names = {1: 'numeric', 2: 'alphanumeric', 4: 'byte', 8: 'kanji', 13: 'hanzi'}
                if ind not in names:
                    rep.bad('unknown mode indicator %s at bit %d' % (bin(ind), p - 4))
                    break
                mode = names[ind]
                if mode == 'hanzi':
                    subset = take(4)
                    if subset != 1:
                        rep.bad('hanzi subset %d' % subset)
            first = False
            start = p
            count = take(T.cci_bits(mode, ver))
            data = bytearray()
            if mode == 'numeric':
                full, r = divmod(count, 3)
                for _ in range(full):
                    v = take(10)
                    if v > 999:
                        rep.bad('numeric group %d' % v)
                    data += b'%03d' % v
                if r == 1:
                    v = take(4)
                    if v > 9:
                        rep.bad('numeric group %d' % v)
                    data += b'%d' % v
                elif r == 2:
                    v = take(7)
                    if v > 99:
                        rep.bad('numeric group %d' % v)
                    data += b'%02d' % v
            elif mode == 'alphanumeric':
                full, r = divmod(count, 2)
                for _ in range(full):
                    v = take(11)
                    if v >= 45 * 45:
                        rep.bad('alnum group %d' % v)
                        v %= 45 * 45
                    data += T.ALNUM[v // 45].encode() + T.ALNUM[v % 45].encode()
                if r:
                    v = take(6)
                    if v >= 45:
                        rep.bad('alnum char %d' % v)
                        v %= 45
                    data += T.ALNUM[v].encode()
            elif mode == 'byte':
                for _ in range(count):
                    data.append(take(8))
            elif mode == 'kanji':
                for _ in range(count):
                    v = take(13)
                    c = ((v // 0xc0) << 8) | (v % 0xc0)
                    c += 0x8140 if c < 0x1f00 else 0xc140
                    data += bytes((c >> 8, c & 0xff))
            elif mode == 'hanzi':
                for _ in range(count):
                    v = take(13)
                    c = ((v // 0x60) << 8) | (v % 0x60)
                    c += 0xa1a1 if c < 0x0a00 else 0xa6a1
                    data += bytes((c >> 8, c & 0xff))
            seg = Seg(mode, count, bytes(data), eci=pending_eci, bits=p - start)
            if pending_eci is not None and mode != 'byte':
                rep.bad('ECI header before a %s segment' % mode)
            pending_eci = None
            segs.append(seg)
    except EOFError:
        rep.bad('data stream exhausted inside a segment (content cut?)')
        try:
            rep.partial = bytes(data)        # what could be read of the segment in progress
        except Exception:
            rep.partial = b''
    if pending_eci is not None:
        rep.bad('dangling ECI header')
    rep.segments = segs
    rep.after = bits[p:]
    rep.payload = b''.join(s.data for s in segs)
    return rep


def read_format(matrix):
    """Lightweight: only size -> version and format information -> (version, level, mask, words)."""
    size = len(matrix)
    ver = T.version_of_size(size)
    if ver is None:
        return None, None, None, []
    micro = T.is_micro(ver)
    c1, c2 = Lo.format_positions(ver)
    words = []
    for pos in (c1, c2):
        if pos is None:
            continue
        w = 0
        for bit, (i, j) in enumerate(pos):
            w |= (matrix[i][j] & 1) << bit
        words.append(w)
    raw = words[0] ^ (T.FORMAT_MASK_MICRO if micro else T.FORMAT_MASK_QR)
    d5 = raw >> 10
    if T.bch_format(d5) != raw or len(set(words)) != 1:
        return ver, None, None, words
    if micro:
        sym, level = T.MICRO_NUMBER_SYMBOL[d5 >> 2]
        if sym != ver:
            return ver, None, None, words
        return ver, level, d5 & 3, words
    return ver, T.QR_BITS_LEVEL[d5 >> 3], d5 & 7, words
