"""Symbol geometry from ISO/IEC 18004 clause 6.3 / 7.7 / 7.9 / 7.10 (independent of segno)."""
from functools import lru_cache
from . import tables as T

# module classes
FINDER, SEPARATOR, TIMING, ALIGNMENT, FORMAT, VERSION, DARKMODULE, DATA = \
    'finder', 'separator', 'timing', 'alignment', 'format', 'version', 'darkmodule', 'data'

_FINDER = ("1111111", "1000001", "1011101", "1011101", "1011101", "1000001", "1111111")
_ALIGN = ("11111", "10001", "10101", "10001", "11111")


@lru_cache(maxsize=None)
def function_map(ver):
    """Returns (cls, val): cls[i][j] = module class, val[i][j] = fixed value 0/1 or None (format/version/data)."""
    size = T.size_of(ver)
    micro = T.is_micro(ver)
    cls = [[DATA] * size for _ in range(size)]
    val = [[None] * size for _ in range(size)]

    def put(i, j, c, v):
        cls[i][j] = c
        val[i][j] = v

    # timing first (finder/alignment overwrite where they overlap)
    if micro:
        for k in range(size):
            put(0, k, TIMING, 1 - (k & 1))
            put(k, 0, TIMING, 1 - (k & 1))
    else:
        for k in range(size):
            put(6, k, TIMING, 1 - (k & 1))
            put(k, 6, TIMING, 1 - (k & 1))
    # finder patterns + separators
    corners = [(0, 0)] if micro else [(0, 0), (0, size - 7), (size - 7, 0)]
    for (r0, c0) in corners:
        for di in range(-1, 8):
            for dj in range(-1, 8):
                i, j = r0 + di, c0 + dj
                if not (0 <= i < size and 0 <= j < size):
                    continue
                if 0 <= di < 7 and 0 <= dj < 7:
                    put(i, j, FINDER, int(_FINDER[di][dj]))
                else:
                    put(i, j, SEPARATOR, 0)
    # alignment patterns
    cent = T.alignment_centres(ver)
    for ci in cent:
        for cj in cent:
            if (ci, cj) in ((6, 6), (6, cent[-1]), (cent[-1], 6)):
                continue
            for di in range(5):
                for dj in range(5):
                    put(ci - 2 + di, cj - 2 + dj, ALIGNMENT, int(_ALIGN[di][dj]))
    # format information
    for (i, j) in format_positions(ver)[0] + (format_positions(ver)[1] or []):
        put(i, j, FORMAT, None)
    if not micro:
        put(size - 8, 8, DARKMODULE, 1)
        if ver >= 7:
            for (i, j) in version_positions(ver)[0] + version_positions(ver)[1]:
                put(i, j, VERSION, None)
    return cls, val


def format_positions(ver):
    """Returns (copy1, copy2); each a list of (row, col) for bit 0 (LSB) .. bit 14. copy2 is None for Micro."""
    size = T.size_of(ver)
    if T.is_micro(ver):
        c1 = [(r, 8) for r in range(1, 9)] + [(8, c) for c in range(7, 0, -1)]
        return c1, None
    c1 = [(r, 8) for r in range(0, 6)] + [(7, 8), (8, 8), (8, 7)] + [(8, c) for c in range(5, -1, -1)]
    c2 = [(8, size - 1 - k) for k in range(8)] + [(size - 7 + k, 8) for k in range(7)]
    return c1, c2


def version_positions(ver):
    """Returns (upper_right, lower_left); lists of (row, col) for bit 0 .. 17."""
    size = T.size_of(ver)
    ur = [(k // 3, size - 11 + k % 3) for k in range(18)]
    ll = [(size - 11 + k % 3, k // 3) for k in range(18)]
    return ur, ll


@lru_cache(maxsize=None)
def data_positions(ver):
    """Module positions of the encoding region in placement order (7.7.3): two-module wide columns
    from the right, alternately upwards and downwards, right module first; the vertical timing column
    is skipped in QR symbols."""
    size = T.size_of(ver)
    cls, _ = function_map(ver)
    micro = T.is_micro(ver)
    res = []
    col = size - 1
    upward = True
    while col > 0:
        if not micro and col == 6:
            col -= 1
        rows = range(size - 1, -1, -1) if upward else range(size)
        for r in rows:
            for c in (col, col - 1):
                if cls[r][c] == DATA:
                    res.append((r, c))
        upward = not upward
        col -= 2
    return tuple(res)


def mask_cond(k, i, j):
    """Table 10 condition for QR mask pattern reference k (0..7). True -> invert."""
    if k == 0:
        return (i + j) % 2 == 0
    if k == 1:
        return i % 2 == 0
    if k == 2:
        return j % 3 == 0
    if k == 3:
        return (i + j) % 3 == 0
    if k == 4:
        return (i // 2 + j // 3) % 2 == 0
    if k == 5:
        return (i * j) % 2 + (i * j) % 3 == 0
    if k == 6:
        return ((i * j) % 2 + (i * j) % 3) % 2 == 0
    if k == 7:
        return ((i + j) % 2 + (i * j) % 3) % 2 == 0
    raise ValueError(k)


MICRO_MASK_TO_QR = (1, 4, 6, 7)


def mask_bit(ver, mask, i, j):
    k = MICRO_MASK_TO_QR[mask] if T.is_micro(ver) else mask
    return 1 if mask_cond(k, i, j) else 0


def classify(ver, i, j):
    return function_map(ver)[0][i][j]
