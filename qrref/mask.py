"""ISO/IEC 18004 7.8.3 evaluation of masking results (independent of segno)."""
from . import tables as T
from . import layout as Lo


def penalty_parts(m):
    """m: list of rows (0/1). Returns (n1, n2, n3, dark, total)."""
    size = len(m)
    n1 = n2 = n3 = 0
    cols = [[m[i][j] for i in range(size)] for j in range(size)]
    for line in list(m) + cols:
        # N1 runs
        run = 1
        for k in range(1, size):
            if line[k] == line[k - 1]:
                run += 1
            else:
                if run >= 5:
                    n1 += 3 + (run - 5)
                run = 1
        if run >= 5:
            n1 += 3 + (run - 5)
        # N3: 1011101 with 4 light modules (or outside the symbol) before or after
        for k in range(size - 6):
            if line[k] == 1 and line[k + 1] == 0 and line[k + 2] == 1 and line[k + 3] == 1 and line[k + 4] == 1 \
                    and line[k + 5] == 0 and line[k + 6] == 1:
                before = all(line[x] == 0 for x in range(max(0, k - 4), k))
                after = all(line[x] == 0 for x in range(k + 7, min(size, k + 11)))
                if before or after:
                    n3 += 40
    for i in range(size - 1):
        r0, r1 = m[i], m[i + 1]
        for j in range(size - 1):
            v = r0[j]
            if v == r0[j + 1] == r1[j] == r1[j + 1]:
                n2 += 3
    dark = sum(sum(r) for r in m)
    return n1, n2, n3, dark, size * size


def n4_options(dark, total):
    """Returns the set of admissible N4 values: floor convention, and (only at exact 5% multiples) one step less."""
    dev20 = abs(20 * dark - 10 * total)      # |p-50|/5 = dev20/total
    k = dev20 // total
    opts = {10 * k}
    if dev20 % total == 0 and k > 0:
        opts.add(10 * (k - 1))
    return opts


def micro_score(m):
    size = len(m)
    s1 = sum(m[i][size - 1] for i in range(1, size))
    s2 = sum(m[size - 1][j] for j in range(1, size))
    return s1 * 16 + s2 if s1 <= s2 else s2 * 16 + s1


def candidates(matrix, ver, mask_used):
    """Rebuilds all candidate maskings (format/version areas and dark module light) from an emitted symbol."""
    size = len(matrix)
    cls, val = Lo.function_map(ver)
    base = [list(r) for r in matrix]
    for i in range(size):
        for j in range(size):
            c = cls[i][j]
            if c in (Lo.FORMAT, Lo.VERSION, Lo.DARKMODULE):
                base[i][j] = 0
            elif c == Lo.DATA:
                base[i][j] ^= Lo.mask_bit(ver, mask_used, i, j)
    res = []
    nm = 4 if T.is_micro(ver) else 8
    for k in range(nm):
        m = [list(r) for r in base]
        for i in range(size):
            for j in range(size):
                if cls[i][j] == Lo.DATA:
                    m[i][j] ^= Lo.mask_bit(ver, k, i, j)
        res.append(m)
    return res


def best_masks(matrix, ver, mask_used):
    """Returns the set of mask numbers acceptable as 'lowest-numbered optimum' (set because of the N4 boundary convention)."""
    cands = candidates(matrix, ver, mask_used)
    if T.is_micro(ver):
        scores = [micro_score(m) for m in cands]
        return {scores.index(max(scores))}, scores
    parts = [penalty_parts(m) for m in cands]
    acc = set()
    # convention A: floor everywhere; convention B: one step less at exact multiples
    for conv in (0, 1):
        sc = []
        for (n1, n2, n3, dark, total) in parts:
            o = sorted(n4_options(dark, total))
            n4 = o[-1] if conv == 0 else o[0]
            sc.append(n1 + n2 + n3 + n4)
        acc.add(sc.index(min(sc)))
    return acc, [p[:3] for p in parts]


def analyse(matrix, ver, mask_used):
    """Returns dict(best=set of acceptable mask numbers, totals=list of scores (floor convention), tie=bool)."""
    cands = candidates(matrix, ver, mask_used)
    if T.is_micro(ver):
        scores = [micro_score(m) for m in cands]
        mx = max(scores)
        return {'best': {scores.index(mx)}, 'totals': scores, 'tie': scores.count(mx) > 1}
    parts = [penalty_parts(m) for m in cands]
    acc = set()
    totals = None
    for conv in (0, 1):
        sc = []
        for (n1, n2, n3, dark, total) in parts:
            o = sorted(n4_options(dark, total))
            sc.append(n1 + n2 + n3 + (o[-1] if conv == 0 else o[0]))
        if conv == 0:
            totals = sc
        acc.add(sc.index(min(sc)))
    return {'best': acc, 'totals': totals, 'tie': totals.count(min(totals)) > 1, 'parts': [p[:3] for p in parts]}


def unmasked_data(matrix, ver, mask):
    """Encoding-region bits (placement order) after removing mask `mask`."""
    return [matrix[i][j] ^ Lo.mask_bit(ver, mask, i, j) for (i, j) in Lo.data_positions(ver)]
