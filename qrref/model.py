"""Reference decision model for the text->bytes policy and for mode applicability (statements C01, C07).
Never imports segno.  Text codecs come from the Python standard library (trusted base)."""
import codecs
from . import tables as T


def canon_codec(name):
    try:
        return codecs.lookup(name).name
    except LookupError:
        return 'unknown:' + str(name).lower()


def expected_bytes(content, mode=None, encoding=None):
    """Payload bytes the statement of C01 prescribes.  May raise UnicodeError / LookupError."""
    if isinstance(content, (bytes, bytearray)):
        return bytes(content), (encoding or 'iso-8859-1')
    text = str(content)
    if mode == 'hanzi':
        return text.encode('gb2312'), 'gb2312'
    if encoding is not None:
        return text.encode(encoding), encoding
    for enc in ('iso-8859-1', 'shift_jis', 'utf-8'):
        try:
            return text.encode(enc), enc
        except UnicodeError:
            pass
    raise UnicodeError('not encodable')


def is_numeric(data):
    return len(data) > 0 and all(0x30 <= b <= 0x39 for b in data)


_ALNUM_SET = frozenset(T.ALNUM.encode('ascii'))


def is_alnum(data):
    return len(data) > 0 and all(b in _ALNUM_SET for b in data)


def kanji_pair_class(hi, lo):
    """'must' | 'mustnot' | 'either' for one byte pair (see DESIGN C07, interpretation)."""
    code = (hi << 8) | lo
    if not (0x8140 <= code <= 0x9ffc or 0xe040 <= code <= 0xebbf):
        return 'mustnot'
    if lo < 0x40:
        return 'mustnot'          # ISO arithmetic cannot represent it: no round trip
    structural = (0x40 <= lo <= 0x7e or 0x80 <= lo <= 0xfc)
    if structural:
        try:
            s = bytes((hi, lo)).decode('shift_jis')
            if len(s) == 1:
                return 'must'
        except UnicodeError:
            pass
    return 'either'


def kanji_class(data):
    if len(data) < 2 or len(data) % 2:
        return 'mustnot'
    res = 'must'
    for i in range(0, len(data), 2):
        c = kanji_pair_class(data[i], data[i + 1])
        if c == 'mustnot':
            return 'mustnot'
        if c == 'either':
            res = 'either'
    return res


def hanzi_ok(data):
    if len(data) < 2 or len(data) % 2:
        return False
    for i in range(0, len(data), 2):
        code = (data[i] << 8) | data[i + 1]
        lo = data[i + 1]
        if not (0xa1a1 <= code <= 0xaafe or 0xb0a1 <= code <= 0xfafe):
            return False
        if not 0xa1 <= lo <= 0xfe:
            return False
    return True


def auto_modes(data):
    """Set of acceptable automatic modes for single-part byte data (singleton except in the kanji grey zone)."""
    if is_numeric(data):
        return {'numeric'}
    if is_alnum(data):
        return {'alphanumeric'}
    k = kanji_class(data)
    if k == 'must':
        return {'kanji'}
    if k == 'either':
        return {'kanji', 'byte'}
    return {'byte'}


def representable(mode, data):
    """True / False / None (= grey zone, left to the round trip)."""
    if mode == 'byte':
        return True
    if mode == 'numeric':
        return is_numeric(data)
    if mode == 'alphanumeric':
        return is_alnum(data)
    if mode == 'kanji':
        k = kanji_class(data)
        return True if k == 'must' else (False if k == 'mustnot' else None)
    if mode == 'hanzi':
        return hanzi_ok(data)
    raise ValueError(mode)


def eci_number(encoding):
    return T.ECI_NUM.get(canon_codec(encoding))


def is_latin1(encoding):
    return canon_codec(encoding) == 'iso8859-1'
