"""Reed-Solomon over GF(256): syndromes and a Berlekamp-Massey / Chien / Forney corrector.

Codeword polynomial convention: block[0] is the highest-order coefficient; generator roots alpha^0..alpha^(ec-1).
"""
from .tables import EXP, LOG, gmul, gdiv, ginv, gen_poly


def poly_eval(p, x):
    """p high->low coefficients."""
    y = 0
    for c in p:
        y = gmul(y, x) ^ c
    return y


def syndromes(block, ec):
    return [poly_eval(block, EXP[i]) for i in range(ec)]


def encode(data, ec):
    g = gen_poly(ec)
    rem = list(data) + [0] * ec
    for i in range(len(data)):
        c = rem[i]
        if c:
            for j in range(1, len(g)):
                rem[i + j] ^= gmul(g[j], c)
    return list(data) + rem[len(data):]


class Uncorrectable(Exception):
    pass


def correct(block, ec):
    """Returns (corrected_block, number_of_errors). Raises Uncorrectable."""
    n = len(block)
    S = syndromes(block, ec)
    if not any(S):
        return list(block), 0
    # Berlekamp-Massey; polynomials low->high
    C = [1]
    B = [1]
    L = 0
    m = 1
    b = 1
    for k in range(ec):
        d = S[k]
        for i in range(1, L + 1):
            if i < len(C):
                d ^= gmul(C[i], S[k - i])
        if d == 0:
            m += 1
        elif 2 * L <= k:
            Tt = list(C)
            coef = gdiv(d, b)
            C = C + [0] * (len(B) + m - len(C)) if len(B) + m > len(C) else C
            for i, bc in enumerate(B):
                C[i + m] ^= gmul(coef, bc)
            L = k + 1 - L
            B = Tt
            b = d
            m = 1
        else:
            coef = gdiv(d, b)
            C = C + [0] * (len(B) + m - len(C)) if len(B) + m > len(C) else C
            for i, bc in enumerate(B):
                C[i + m] ^= gmul(coef, bc)
            m += 1
    while len(C) > 1 and C[-1] == 0:
        C.pop()
    nerr = len(C) - 1
    if nerr != L or nerr * 2 > ec:
        raise Uncorrectable('locator degree %d, L=%d' % (nerr, L))
    # Chien search: error at position p (power of x = n-1-index) iff C(alpha^-p) == 0
    locs = []
    for idx in range(n):
        p = n - 1 - idx
        xinv = EXP[(255 - p) % 255]
        v = 0
        for c in reversed(C):
            v = gmul(v, xinv) ^ c
        if v == 0:
            locs.append(idx)
    if len(locs) != nerr:
        raise Uncorrectable('found %d roots for degree %d' % (len(locs), nerr))
    # Forney: Omega = S(x) * C(x) mod x^ec  (S low->high)
    omega = [0] * ec
    for i in range(ec):
        acc = 0
        for j in range(min(i, len(C) - 1) + 1):
            acc ^= gmul(C[j], S[i - j])
        omega[i] = acc
    # formal derivative of C
    dC = [C[i] if i % 2 == 1 else 0 for i in range(1, len(C))]  # coefficients of x^(i-1)
    out = list(block)
    for idx in locs:
        p = n - 1 - idx
        X = EXP[p % 255]
        xinv = ginv(X)
        num = 0
        for c in reversed(omega):
            num = gmul(num, xinv) ^ c
        den = 0
        for c in reversed(dC):
            den = gmul(den, xinv) ^ c
        if den == 0:
            raise Uncorrectable('zero derivative')
        # first consecutive root is alpha^0 -> magnitude = X^(1-0) * Omega(X^-1)/C'(X^-1)
        mag = gmul(X, gdiv(num, den))
        out[idx] ^= mag
    if any(syndromes(out, ec)):
        raise Uncorrectable('residual syndromes')
    return out, nerr
