"""Reference decision model for version / level selection (ISO capacities; statement of C04/C05)."""
from . import tables as T

LEVEL_ORDER = ('L', 'M', 'Q', 'H')


def required_bits(parts, ver, eci=False, sa=False):
    """parts: list of (mode, count, is_non_latin1_byte).  Bits needed in version `ver`, or None if a mode is unavailable."""
    total = 20 if sa else 0
    for mode, count, nonlatin in parts:
        if not T.mode_supported(mode, ver):
            return None
        if count >= (1 << T.cci_bits(mode, ver)):
            return None
        total += T.mode_ind_bits(ver) + T.cci_bits(mode, ver) + T.payload_bits(mode, count)
        if mode == 'hanzi':
            total += 4
        if eci and mode == 'byte' and nonlatin:
            total += 12
    return total


def select(parts, error=None, version=None, micro=None, eci=False, boost=True, single=True):
    """Returns ('ok', version, level) or ('refuse', reason)."""
    if version is not None:
        if T.is_micro(version) and micro is False:
            return ('refuse', 'micro version but micro=False')
        if not T.is_micro(version) and micro is True:
            return ('refuse', 'qr version but micro=True')
    if error == 'H' and (micro is True or (version is not None and T.is_micro(version))):
        return ('refuse', 'H in micro')
    if eci and (micro is True or (version is not None and T.is_micro(version))):
        return ('refuse', 'eci in micro')
    cands = [version] if version is not None else list(T.ORDER)
    for v in cands:
        if T.is_micro(v):
            if version is None and (micro is False or eci):
                continue
        else:
            if micro is True:
                continue
        if v == 'M1':
            if error is not None:
                continue
            lvl = None
        else:
            lvl = error or 'L'
            if lvl not in T.levels_of(v):
                continue
        need = required_bits(parts, v, eci=eci)
        if need is None or need > T.data_bits(v, lvl):
            continue
        # boost
        if boost and single and lvl is not None:
            for cand in LEVEL_ORDER[LEVEL_ORDER.index(lvl) + 1:]:
                if cand in T.levels_of(v) and need <= T.data_bits(v, cand):
                    lvl = cand
                else:
                    break
        return ('ok', v, lvl)
    return ('refuse', 'does not fit')
