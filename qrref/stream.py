"""Reference bit stream (ISO/IEC 18004 7.4) and reference encoder, independent of segno.

A *part* is (mode, data_bytes, eci_number_or_None).  Everything here is written from the standard's text.
"""
from . import tables as T
from . import layout as Lo
from . import rs as RS


def bits_of(val, n):
    return [(val >> i) & 1 for i in range(n - 1, -1, -1)]


def payload_to_bits(mode, data):
    out = []
    if mode == 'numeric':
        s = data.decode('ascii')
        for i in range(0, len(s), 3):
            g = s[i:i + 3]
            out += bits_of(int(g), (4, 7, 10)[len(g) - 1])
    elif mode == 'alphanumeric':
        s = data.decode('ascii')
        for i in range(0, len(s), 2):
            g = s[i:i + 2]
            if len(g) == 2:
                out += bits_of(T.ALNUM.index(g[0]) * 45 + T.ALNUM.index(g[1]), 11)
            else:
                out += bits_of(T.ALNUM.index(g), 6)
    elif mode == 'byte':
        for b in data:
            out += bits_of(b, 8)
    elif mode == 'kanji':
        for i in range(0, len(data), 2):
            c = (data[i] << 8) | data[i + 1]
            c -= 0x8140 if c <= 0x9ffc else 0xc140
            out += bits_of((c >> 8) * 0xc0 + (c & 0xff), 13)
    elif mode == 'hanzi':
        for i in range(0, len(data), 2):
            c = (data[i] << 8) | data[i + 1]
            c -= 0xa1a1 if c <= 0xaafe else 0xa6a1
            out += bits_of((c >> 8) * 0x60 + (c & 0xff), 13)
    else:
        raise ValueError(mode)
    return out


def char_count(mode, data):
    return len(data) // 2 if mode in ('kanji', 'hanzi') else len(data)


def segment_bits(mode, data, ver, eci=None):
    out = []
    micro = T.is_micro(ver)
    if eci is not None:
        out += bits_of(T.QR_MODE_IND['eci'], 4)
        if eci < 128:
            out += bits_of(eci, 8)
        elif eci < 16384:
            out += bits_of(0x8000 | eci, 16)
        else:
            out += bits_of(0xc00000 | eci, 24)
    if micro:
        out += bits_of(T.MICRO_MODE_IND[mode], T.mode_ind_bits(ver))
    else:
        out += bits_of(T.QR_MODE_IND[mode], 4)
        if mode == 'hanzi':
            out += bits_of(1, 4)
    out += bits_of(char_count(mode, data), T.cci_bits(mode, ver))
    out += payload_to_bits(mode, data)
    return out


def tail(ver, level, used):
    """Bits that follow the last segment: terminator, bit padding, pad codewords (7.4.9, 7.4.10)."""
    cap = T.data_bits(ver, level)
    term = min(cap - used, T.terminator_bits(ver))
    bits = [0] * term
    pos = used + term
    full_end = (cap // 8) * 8          # M1/M3: capacity = 8k + 4
    if pos <= full_end:
        while pos % 8:
            bits.append(0)
            pos += 1
    else:
        while pos < cap:
            bits.append(0)
            pos += 1
    pads = ((1, 1, 1, 0, 1, 1, 0, 0), (0, 0, 0, 1, 0, 0, 0, 1))
    i = 0
    while pos + 8 <= full_end:
        bits.extend(pads[i % 2])
        i += 1
        pos += 8
    while pos < cap:                     # final 4-bit codeword of M1/M3 is 0000
        bits.append(0)
        pos += 1
    return bits


def data_stream(parts, ver, level, sa=None):
    """Full data bit stream (length = data capacity) or None if it does not fit."""
    out = []
    if sa is not None:
        idx, tot, par = sa
        out += bits_of(T.QR_MODE_IND['sa'], 4) + bits_of(idx, 4) + bits_of(tot, 4) + bits_of(par, 8)
    for mode, data, eci in parts:
        out += segment_bits(mode, data, ver, eci)
    cap = T.data_bits(ver, level)
    if len(out) > cap:
        return None
    return out + tail(ver, level, len(out))


def codewords_from_bits(bits, ver):
    half = T.has_half_codeword(ver)
    cws = []
    n = len(bits)
    p = 0
    while p < n:
        if half and n - p == 4:
            v = 0
            for b in bits[p:p + 4]:
                v = (v << 1) | b
            cws.append(v << 4)
            p += 4
        else:
            v = 0
            for b in bits[p:p + 8]:
                v = (v << 1) | b
            cws.append(v)
            p += 8
    return cws


def final_sequence(data_cws, ver, level):
    """Splits into Table 9 blocks, appends RS codewords, interleaves (7.6).  Returns list of ints
    (M1/M3: the half codeword is kept as value<<4 in its data position)."""
    spec = T.blocks(ver, level)
    blocks = []
    p = 0
    for (t, d) in spec:
        blocks.append(list(data_cws[p:p + d]))
        p += d
    ecs = [RS.encode(b, t - d)[d:] for b, (t, d) in zip(blocks, spec)]
    out = []
    for k in range(max(d for _, d in spec)):
        for b in blocks:
            if k < len(b):
                out.append(b[k])
    for k in range(max(t - d for t, d in spec)):
        for e in ecs:
            if k < len(e):
                out.append(e[k])
    return out


def build_matrix(parts, ver, level, mask, sa=None):
    """Reference encoder: returns the module matrix (list of lists) for the given parts."""
    bits = data_stream(parts, ver, level, sa)
    if bits is None:
        raise ValueError('does not fit')
    dcw = codewords_from_bits(bits, ver)
    seq = final_sequence(dcw, ver, level)
    half = T.has_half_codeword(ver)
    ndata = sum(d for _, d in T.blocks(ver, level))
    sbits = []
    for k, c in enumerate(seq):
        if half and k == ndata - 1:
            sbits += bits_of(c >> 4, 4)
        else:
            sbits += bits_of(c, 8)
    sbits += [0] * T.remainder_bits(ver)
    size = T.size_of(ver)
    cls, val = Lo.function_map(ver)
    m = [[0] * size for _ in range(size)]
    for i in range(size):
        for j in range(size):
            if val[i][j] is not None:
                m[i][j] = val[i][j]
    pos = Lo.data_positions(ver)
    assert len(pos) == len(sbits), (len(pos), len(sbits))
    for (i, j), b in zip(pos, sbits):
        m[i][j] = b ^ Lo.mask_bit(ver, mask, i, j)
    fw = T.format_word(ver, level, mask)
    c1, c2 = Lo.format_positions(ver)
    for posl in (c1, c2):
        if posl:
            for bit, (i, j) in enumerate(posl):
                m[i][j] = (fw >> bit) & 1
    if not T.is_micro(ver) and ver >= 7:
        vw = T.version_word(ver)
        for posl in Lo.version_positions(ver):
            for bit, (i, j) in enumerate(posl):
                m[i][j] = (vw >> bit) & 1
    return m
