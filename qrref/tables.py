"""ISO/IEC 18004:2015 tables, derived independently of segno (never imports segno).

Versions: QR 1..40 as ints; Micro 'M1'..'M4' as strings.  Levels: 'L','M','Q','H' or None (M1).
"""

MICRO = ('M1', 'M2', 'M3', 'M4')
ORDER = MICRO + tuple(range(1, 41))          # ascending symbol order used by the selection model


def is_micro(ver):
    return isinstance(ver, str)


def size_of(ver):
    if is_micro(ver):
        return 9 + 2 * int(ver[1])
    return 17 + 4 * ver


def version_of_size(size):
    if size in (11, 13, 15, 17):
        return 'M%d' % ((size - 9) // 2)
    if size >= 21 and (size - 17) % 4 == 0 and (size - 17) // 4 <= 40:
        return (size - 17) // 4
    return None


# ---------------------------------------------------------------- GF(256), primitive poly 0x11d
EXP = [0] * 512
LOG = [0] * 256
_x = 1
for _i in range(255):
    EXP[_i] = _x
    LOG[_x] = _i
    _x <<= 1
    if _x & 0x100:
        _x ^= 0x11d
for _i in range(255, 512):
    EXP[_i] = EXP[_i - 255]


def gmul(a, b):
    if a == 0 or b == 0:
        return 0
    return EXP[LOG[a] + LOG[b]]


def gdiv(a, b):
    if b == 0:
        raise ZeroDivisionError
    if a == 0:
        return 0
    return EXP[(LOG[a] - LOG[b]) % 255]


def ginv(a):
    return EXP[255 - LOG[a]]


def gen_poly(ec):
    """Generator polynomial prod_{i=0}^{ec-1} (x - alpha^i), coefficients high -> low."""
    g = [1]
    for i in range(ec):
        ng = [0] * (len(g) + 1)
        for j, c in enumerate(g):
            ng[j] ^= c
            ng[j + 1] ^= gmul(c, EXP[i])
        g = ng
    return g


# ---------------------------------------------------------------- Table 9 (QR), typed from the standard
_ECC_PER_BLOCK = {
    'L': [7, 10, 15, 20, 26, 18, 20, 24, 30, 18, 20, 24, 26, 30, 22, 24, 28, 30, 28, 28,
          28, 28, 30, 30, 26, 28, 30, 30, 30, 30, 30, 30, 30, 30, 30, 30, 30, 30, 30, 30],
    'M': [10, 16, 26, 18, 24, 16, 18, 22, 22, 26, 30, 22, 22, 24, 24, 28, 28, 26, 26, 26,
          26, 28, 28, 28, 28, 28, 28, 28, 28, 28, 28, 28, 28, 28, 28, 28, 28, 28, 28, 28],
    'Q': [13, 22, 18, 26, 18, 24, 18, 22, 20, 24, 28, 26, 24, 20, 30, 24, 28, 28, 26, 30,
          28, 30, 30, 30, 30, 28, 30, 30, 30, 30, 30, 30, 30, 30, 30, 30, 30, 30, 30, 30],
    'H': [17, 28, 22, 16, 22, 28, 26, 26, 24, 28, 24, 28, 22, 24, 24, 30, 28, 28, 26, 28,
          30, 24, 30, 30, 30, 30, 30, 30, 30, 30, 30, 30, 30, 30, 30, 30, 30, 30, 30, 30],
}
_NUM_BLOCKS = {
    'L': [1, 1, 1, 1, 1, 2, 2, 2, 2, 4, 4, 4, 4, 4, 6, 6, 6, 6, 7, 8,
          8, 9, 9, 10, 12, 12, 12, 13, 14, 15, 16, 17, 18, 19, 19, 20, 21, 22, 24, 25],
    'M': [1, 1, 1, 2, 2, 4, 4, 4, 5, 5, 5, 8, 9, 9, 10, 10, 11, 13, 14, 16,
          17, 17, 18, 20, 21, 23, 25, 26, 28, 29, 31, 33, 35, 37, 38, 40, 43, 45, 47, 49],
    'Q': [1, 1, 2, 2, 4, 4, 6, 6, 8, 8, 8, 10, 12, 16, 12, 17, 16, 18, 21, 20,
          23, 23, 25, 27, 29, 34, 34, 35, 38, 40, 43, 45, 48, 51, 53, 56, 59, 62, 65, 68],
    'H': [1, 1, 2, 4, 4, 4, 5, 6, 8, 8, 11, 11, 16, 16, 18, 16, 19, 21, 25, 25,
          25, 34, 30, 32, 35, 37, 40, 42, 45, 48, 51, 54, 57, 60, 63, 66, 70, 74, 77, 81],
}

# Micro QR: (total codewords, data codewords) ; data bit capacity (Table 7) -- M1/M3 end in a 4-bit codeword
_MICRO_BLOCKS = {
    ('M1', None): (5, 3), ('M2', 'L'): (10, 5), ('M2', 'M'): (10, 4),
    ('M3', 'L'): (17, 11), ('M3', 'M'): (17, 9),
    ('M4', 'L'): (24, 16), ('M4', 'M'): (24, 14), ('M4', 'Q'): (24, 10),
}
_MICRO_DATA_BITS = {
    ('M1', None): 20, ('M2', 'L'): 40, ('M2', 'M'): 32, ('M3', 'L'): 84, ('M3', 'M'): 68,
    ('M4', 'L'): 128, ('M4', 'M'): 112, ('M4', 'Q'): 80,
}


def levels_of(ver):
    if ver == 'M1':
        return (None,)
    if ver in ('M2', 'M3'):
        return ('L', 'M')
    if ver == 'M4':
        return ('L', 'M', 'Q')
    return ('L', 'M', 'Q', 'H')


def all_version_levels():
    return [(v, l) for v in ORDER for l in levels_of(v)]


def alignment_centres(ver):
    """Annex E: row/column coordinates of alignment pattern centres."""
    if is_micro(ver) or ver == 1:
        return []
    n = ver // 7 + 2
    step = 26 if ver == 32 else (ver * 4 + n * 2 + 1) // (n * 2 - 2) * 2
    res = [ver * 4 + 10 - i * step for i in range(n - 1)]
    return [6] + res[::-1]


def raw_data_modules(ver):
    """Number of modules in the encoding region (data + ec + remainder bits)."""
    if is_micro(ver):
        size = size_of(ver)
        # finder+separator 8x8, timing row/col (size-8 each), format info 15
        return size * size - 64 - 2 * (size - 8) - 15
    r = (16 * ver + 128) * ver + 64
    if ver >= 2:
        n = ver // 7 + 2
        r -= (25 * n - 10) * n - 55
        if ver >= 7:
            r -= 36
    return r


def total_codewords(ver):
    if is_micro(ver):
        return _MICRO_BLOCKS[(ver, levels_of(ver)[0])][0]
    return raw_data_modules(ver) // 8


def remainder_bits(ver):
    if is_micro(ver):
        return 0
    return raw_data_modules(ver) % 8


def blocks(ver, level):
    """List of (total, data) per block in ISO order (shorter blocks first)."""
    if is_micro(ver):
        return [_MICRO_BLOCKS[(ver, level)]]
    nb = _NUM_BLOCKS[level][ver - 1]
    ec = _ECC_PER_BLOCK[level][ver - 1]
    raw = total_codewords(ver)
    short = raw // nb
    nshort = nb - raw % nb
    return [(short, short - ec)] * nshort + [(short + 1, short + 1 - ec)] * (nb - nshort)


def data_bits(ver, level):
    """Data capacity in bits (Table 7)."""
    if is_micro(ver):
        return _MICRO_DATA_BITS[(ver, level)]
    return 8 * sum(d for _, d in blocks(ver, level))


def has_half_codeword(ver):
    return ver in ('M1', 'M3')


# ---------------------------------------------------------------- Tables 2 / 3
MODES = ('numeric', 'alphanumeric', 'byte', 'kanji', 'hanzi')
QR_MODE_IND = {'numeric': 0b0001, 'alphanumeric': 0b0010, 'byte': 0b0100, 'kanji': 0b1000,
               'hanzi': 0b1101, 'eci': 0b0111, 'sa': 0b0011, 'terminator': 0}
MICRO_MODE_IND = {'numeric': 0, 'alphanumeric': 1, 'byte': 2, 'kanji': 3}
MICRO_MODES = {'M1': ('numeric',), 'M2': ('numeric', 'alphanumeric'),
               'M3': ('numeric', 'alphanumeric', 'byte', 'kanji'),
               'M4': ('numeric', 'alphanumeric', 'byte', 'kanji')}
ALNUM = '0123456789ABCDEFGHIJKLMNOPQRSTUVWXYZ $%*+-./:'


def mode_supported(mode, ver):
    if is_micro(ver):
        return mode in MICRO_MODES[ver]
    return mode in MODES


def mode_ind_bits(ver):
    if is_micro(ver):
        return int(ver[1]) - 1          # M1:0 M2:1 M3:2 M4:3
    return 4


def cci_bits(mode, ver):
    if is_micro(ver):
        k = int(ver[1])
        return {'numeric': k + 2, 'alphanumeric': k + 1, 'byte': k + 1, 'kanji': k}[mode]
    rng = 0 if ver <= 9 else (1 if ver <= 26 else 2)
    return {'numeric': (10, 12, 14), 'alphanumeric': (9, 11, 13), 'byte': (8, 16, 16),
            'kanji': (8, 10, 12), 'hanzi': (8, 10, 12)}[mode][rng]


def terminator_bits(ver):
    if is_micro(ver):
        return {'M1': 3, 'M2': 5, 'M3': 7, 'M4': 9}[ver]
    return 4


def payload_bits(mode, count):
    if mode == 'numeric':
        return 10 * (count // 3) + (0, 4, 7)[count % 3]
    if mode == 'alphanumeric':
        return 11 * (count // 2) + 6 * (count % 2)
    if mode == 'byte':
        return 8 * count
    return 13 * count


# ---------------------------------------------------------------- format / version information
def bch_format(data5):
    d = data5 << 10
    g = 0x537
    r = d
    for i in range(14, 9, -1):
        if r & (1 << i):
            r ^= g << (i - 10)
    return d | r


FORMAT_MASK_QR = 0x5412
FORMAT_MASK_MICRO = 0x4445
QR_LEVEL_BITS = {'L': 0b01, 'M': 0b00, 'Q': 0b11, 'H': 0b10}
QR_BITS_LEVEL = {v: k for k, v in QR_LEVEL_BITS.items()}
MICRO_SYMBOL_NUMBER = {('M1', None): 0, ('M2', 'L'): 1, ('M2', 'M'): 2, ('M3', 'L'): 3, ('M3', 'M'): 4,
                       ('M4', 'L'): 5, ('M4', 'M'): 6, ('M4', 'Q'): 7}
MICRO_NUMBER_SYMBOL = {v: k for k, v in MICRO_SYMBOL_NUMBER.items()}


def format_word(ver, level, mask):
    if is_micro(ver):
        return bch_format((MICRO_SYMBOL_NUMBER[(ver, level)] << 2) | mask) ^ FORMAT_MASK_MICRO
    return bch_format((QR_LEVEL_BITS[level] << 3) | mask) ^ FORMAT_MASK_QR


def version_word(ver):
    d = ver << 12
    g = 0x1f25
    r = d
    for i in range(17, 11, -1):
        if r & (1 << i):
            r ^= g << (i - 12)
    return d | r


# ---------------------------------------------------------------- ECI assignment numbers (subset, from the AIM ECI register)
ECI_NUM = {
    'cp437': 1, 'iso8859-1': 3, 'iso8859-2': 4, 'iso8859-3': 5, 'iso8859-4': 6, 'iso8859-5': 7,
    'iso8859-6': 8, 'iso8859-7': 9, 'iso8859-8': 10, 'iso8859-9': 11, 'iso8859-10': 12,
    'iso8859-11': 13, 'iso8859-13': 15, 'iso8859-14': 16, 'iso8859-15': 17, 'iso8859-16': 18,
    'shift_jis': 20, 'cp1250': 21, 'cp1251': 22, 'cp1252': 23, 'cp1256': 24, 'utf-16-be': 25,
    'utf-8': 26, 'ascii': 27, 'big5': 28, 'gb18030': 29, 'gbk': 29, 'euc_kr': 30,
}
