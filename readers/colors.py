"""Independent colour resolver (never imports segno): colour specification -> (r, g, b, a) with a in 0..255,
a == 0 meaning transparent; and parser for the colour strings that appear in SVG output."""
import re

# CSS Color Module Level 3, "Extended color keywords": typed independently of segno (never imports segno); at build time this table
# and segno.writers._NAME2RGB agreed in all 147 entries - two independent transcriptions, so a changed cell in either shows up.
NAMED = {
 'aliceblue': (240,248,255), 'antiquewhite': (250,235,215), 'aqua': (0,255,255), 'aquamarine': (127,255,212), 'azure': (240,255,255),
 'beige': (245,245,220), 'bisque': (255,228,196), 'black': (0,0,0), 'blanchedalmond': (255,235,205), 'blue': (0,0,255),
 'blueviolet': (138,43,226), 'brown': (165,42,42), 'burlywood': (222,184,135), 'cadetblue': (95,158,160), 'chartreuse': (127,255,0),
 'chocolate': (210,105,30), 'coral': (255,127,80), 'cornflowerblue': (100,149,237), 'cornsilk': (255,248,220), 'crimson': (220,20,60),
 'cyan': (0,255,255), 'darkblue': (0,0,139), 'darkcyan': (0,139,139), 'darkgoldenrod': (184,134,11), 'darkgray': (169,169,169),
 'darkgreen': (0,100,0), 'darkgrey': (169,169,169), 'darkkhaki': (189,183,107), 'darkmagenta': (139,0,139), 'darkolivegreen': (85,107,47),
 'darkorange': (255,140,0), 'darkorchid': (153,50,204), 'darkred': (139,0,0), 'darksalmon': (233,150,122), 'darkseagreen': (143,188,143),
 'darkslateblue': (72,61,139), 'darkslategray': (47,79,79), 'darkslategrey': (47,79,79), 'darkturquoise': (0,206,209), 'darkviolet': (148,0,211),
 'deeppink': (255,20,147), 'deepskyblue': (0,191,255), 'dimgray': (105,105,105), 'dimgrey': (105,105,105), 'dodgerblue': (30,144,255),
 'firebrick': (178,34,34), 'floralwhite': (255,250,240), 'forestgreen': (34,139,34), 'fuchsia': (255,0,255), 'gainsboro': (220,220,220),
 'ghostwhite': (248,248,255), 'gold': (255,215,0), 'goldenrod': (218,165,32), 'gray': (128,128,128), 'grey': (128,128,128),
 'green': (0,128,0), 'greenyellow': (173,255,47), 'honeydew': (240,255,240), 'hotpink': (255,105,180), 'indianred': (205,92,92),
 'indigo': (75,0,130), 'ivory': (255,255,240), 'khaki': (240,230,140), 'lavender': (230,230,250), 'lavenderblush': (255,240,245),
 'lawngreen': (124,252,0), 'lemonchiffon': (255,250,205), 'lightblue': (173,216,230), 'lightcoral': (240,128,128), 'lightcyan': (224,255,255),
 'lightgoldenrodyellow': (250,250,210), 'lightgray': (211,211,211), 'lightgreen': (144,238,144), 'lightgrey': (211,211,211), 'lightpink': (255,182,193),
 'lightsalmon': (255,160,122), 'lightseagreen': (32,178,170), 'lightskyblue': (135,206,250), 'lightslategray': (119,136,153), 'lightslategrey': (119,136,153),
 'lightsteelblue': (176,196,222), 'lightyellow': (255,255,224), 'lime': (0,255,0), 'limegreen': (50,205,50), 'linen': (250,240,230),
 'magenta': (255,0,255), 'maroon': (128,0,0), 'mediumaquamarine': (102,205,170), 'mediumblue': (0,0,205), 'mediumorchid': (186,85,211),
 'mediumpurple': (147,112,219), 'mediumseagreen': (60,179,113), 'mediumslateblue': (123,104,238), 'mediumspringgreen': (0,250,154), 'mediumturquoise': (72,209,204),
 'mediumvioletred': (199,21,133), 'midnightblue': (25,25,112), 'mintcream': (245,255,250), 'mistyrose': (255,228,225), 'moccasin': (255,228,181),
 'navajowhite': (255,222,173), 'navy': (0,0,128), 'oldlace': (253,245,230), 'olive': (128,128,0), 'olivedrab': (107,142,35),
 'orange': (255,165,0), 'orangered': (255,69,0), 'orchid': (218,112,214), 'palegoldenrod': (238,232,170), 'palegreen': (152,251,152),
 'paleturquoise': (175,238,238), 'palevioletred': (219,112,147), 'papayawhip': (255,239,213), 'peachpuff': (255,218,185), 'peru': (205,133,63),
 'pink': (255,192,203), 'plum': (221,160,221), 'powderblue': (176,224,230), 'purple': (128,0,128), 'red': (255,0,0),
 'rosybrown': (188,143,143), 'royalblue': (65,105,225), 'saddlebrown': (139,69,19), 'salmon': (250,128,114), 'sandybrown': (244,164,96),
 'seagreen': (46,139,87), 'seashell': (255,245,238), 'sienna': (160,82,45), 'silver': (192,192,192), 'skyblue': (135,206,235),
 'slateblue': (106,90,205), 'slategray': (112,128,144), 'slategrey': (112,128,144), 'snow': (255,250,250), 'springgreen': (0,255,127),
 'steelblue': (70,130,180), 'tan': (210,180,140), 'teal': (0,128,128), 'thistle': (216,191,216), 'tomato': (255,99,71),
 'turquoise': (64,224,208), 'violet': (238,130,238), 'wheat': (245,222,179), 'white': (255,255,255), 'whitesmoke': (245,245,245),
 'yellow': (255,255,0), 'yellowgreen': (154,205,50),
}



def rgba(c):
    """User colour specification -> (r, g, b, a)."""
    if c is None:
        return (0, 0, 0, 0)
    if isinstance(c, tuple):
        a = 255
        if len(c) == 4:
            a = c[3] * 255 if isinstance(c[3], float) else c[3]
        if any(isinstance(x, float) for x in c[:3]):
            # EPS/PDF: float components are fractions 0.0..1.0 (each component on its own)
            return tuple(x * 255 if isinstance(x, float) else x for x in c[:3]) + (a,)
        return (c[0], c[1], c[2], a)
    if c.lower() in NAMED:
        return NAMED[c.lower()] + (255,)
    h = c.lstrip('#')
    if len(h) in (3, 4):
        h = ''.join(ch * 2 for ch in h)
    v = [int(h[i:i + 2], 16) for i in range(0, len(h), 2)]
    return tuple(v) + ((255,) if len(v) == 3 else ())


def parse_svg_color(s, opacity=None):
    """Colour string found in an SVG document (+ optional *-opacity attribute) -> (r, g, b, alpha float)."""
    a = 1.0 if opacity is None else float(opacity)
    m = re.fullmatch(r'rgba\((\d+),\s*(\d+),\s*(\d+),\s*([0-9.]+)\)', s)
    if m:
        return (int(m.group(1)), int(m.group(2)), int(m.group(3)), float(m.group(4)))
    if s.lower() in NAMED:
        return NAMED[s.lower()] + (a,)
    if re.fullmatch(r'#[0-9a-fA-F]{3}', s):
        return tuple(int(ch * 2, 16) for ch in s[1:]) + (a,)
    if re.fullmatch(r'#[0-9a-fA-F]{6}', s):
        return tuple(int(s[i:i + 2], 16) for i in (1, 3, 5)) + (a,)
    raise ValueError('colour %r' % s)


def same_px(px, exp, tol=0.5):
    """pixel (r,g,b,a) equals expected (r,g,b,a); transparent pixels match on alpha only.  A float alpha a is expected as the
    integer nearest to 255*a (|difference| <= 0.5, ties either way)."""
    if exp[3] == 0:
        return px[3] == 0
    return tuple(px[:3]) == tuple(exp[:3]) and abs(px[3] - exp[3]) <= tol
