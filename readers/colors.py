"""Independent colour resolver (never imports segno): colour specification -> (r, g, b, a) with a in 0..255,
a == 0 meaning transparent; and parser for the colour strings that appear in SVG output."""
import re

NAMED = {'aliceblue': (240, 248, 255), 'antiquewhite': (250, 235, 215), 'black': (0, 0, 0), 'white': (255, 255, 255), 'red': (255, 0, 0), 'darkblue': (0, 0, 139), 'tan': (210, 180, 140),
         'gray': (128, 128, 128), 'grey': (128, 128, 128), 'green': (0, 128, 0), 'blue': (0, 0, 255), 'yellow': (255, 255, 0),
         'orange': (255, 165, 0), 'navy': (0, 0, 128), 'lime': (0, 255, 0), 'silver': (192, 192, 192), 'maroon': (128, 0, 0),
         'purple': (128, 0, 128), 'teal': (0, 128, 128), 'olive': (128, 128, 0), 'aqua': (0, 255, 255), 'fuchsia': (255, 0, 255)}


def rgba(c):
    """User colour specification -> (r, g, b, a)."""
    if c is None:
        return (0, 0, 0, 0)
    if isinstance(c, tuple):
        a = 255
        if len(c) == 4:
            a = c[3] * 255 if isinstance(c[3], float) else c[3]
        if any(isinstance(x, float) for x in c[:3]):
            # EPS/PDF: float components are fractions 0.0..1.0 (each component on its own)
            return tuple(x * 255 if isinstance(x, float) else x for x in c[:3]) + (a,)
        return (c[0], c[1], c[2], a)
    if c.lower() in NAMED:
        return NAMED[c.lower()] + (255,)
    h = c.lstrip('#')
    if len(h) in (3, 4):
        h = ''.join(ch * 2 for ch in h)
    v = [int(h[i:i + 2], 16) for i in range(0, len(h), 2)]
    return tuple(v) + ((255,) if len(v) == 3 else ())


def parse_svg_color(s, opacity=None):
    """Colour string found in an SVG document (+ optional *-opacity attribute) -> (r, g, b, alpha float)."""
    a = 1.0 if opacity is None else float(opacity)
    m = re.fullmatch(r'rgba\((\d+),\s*(\d+),\s*(\d+),\s*([0-9.]+)\)', s)
    if m:
        return (int(m.group(1)), int(m.group(2)), int(m.group(3)), float(m.group(4)))
    if s.lower() in NAMED:
        return NAMED[s.lower()] + (a,)
    if re.fullmatch(r'#[0-9a-fA-F]{3}', s):
        return tuple(int(ch * 2, 16) for ch in s[1:]) + (a,)
    if re.fullmatch(r'#[0-9a-fA-F]{6}', s):
        return tuple(int(s[i:i + 2], 16) for i in (1, 3, 5)) + (a,)
    raise ValueError('colour %r' % s)


def same_px(px, exp, tol=0.5):
    """pixel (r,g,b,a) equals expected (r,g,b,a); transparent pixels match on alpha only.  A float alpha a is expected as the
    integer nearest to 255*a (|difference| <= 0.5, ties either way)."""
    if exp[3] == 0:
        return px[3] == 0
    return tuple(px[:3]) == tuple(exp[:3]) and abs(px[3] - exp[3]) <= tol
