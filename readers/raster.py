"""Independent readers for PNG, PBM (P1/P4), PAM, PPM (P6), XBM, XPM.  Each returns (width, height, pixels)
where pixels[y][x] is an (r, g, b, a) tuple, or raises Malformed."""
import re
import struct
import zlib


class Malformed(Exception):
    pass


def _paeth(a, b, c):
    p = a + b - c
    pa, pb, pc = abs(p - a), abs(p - b), abs(p - c)
    if pa <= pb and pa <= pc:
        return a
    return b if pb <= pc else c


def read_png(data):
    if data[:8] != b'\x89PNG\r\n\x1a\n':
        raise Malformed('signature')
    p = 8
    chunks = []
    while p < len(data):
        if p + 8 > len(data):
            raise Malformed('truncated chunk header')
        ln, = struct.unpack('>I', data[p:p + 4])
        typ = data[p + 4:p + 8]
        body = data[p + 8:p + 8 + ln]
        if len(body) != ln or p + 12 + ln > len(data):
            raise Malformed('truncated chunk %r' % typ)
        crc, = struct.unpack('>I', data[p + 8 + ln:p + 12 + ln])
        if crc != zlib.crc32(typ + body) & 0xffffffff:
            raise Malformed('bad CRC in %r' % typ)
        chunks.append((typ, body))
        p += 12 + ln
    names = [c[0] for c in chunks]
    if names[0] != b'IHDR' or names[-1] != b'IEND' or names.count(b'IHDR') != 1 or names.count(b'IEND') != 1:
        raise Malformed('chunk order %r' % names)
    w, h, depth, ctype, comp, flt, inter = struct.unpack('>2I5B', chunks[0][1])
    if comp or flt or inter:
        raise Malformed('compression/filter/interlace')
    if (ctype, depth) not in [(0, 1), (0, 2), (0, 4), (0, 8), (3, 1), (3, 2), (3, 4), (3, 8), (2, 8), (6, 8), (4, 8)]:
        raise Malformed('colour type %d depth %d' % (ctype, depth))
    plte = trns = None
    idat = b''
    seen_idat = False
    for typ, body in chunks[1:-1]:
        if typ == b'PLTE':
            if seen_idat or len(body) % 3 or not body:
                raise Malformed('PLTE')
            plte = [tuple(body[i:i + 3]) for i in range(0, len(body), 3)]
        elif typ == b'tRNS':
            if seen_idat:
                raise Malformed('tRNS after IDAT')
            trns = body
        elif typ == b'IDAT':
            seen_idat = True
            idat += body
        elif typ == b'pHYs':
            if seen_idat or len(body) != 9:
                raise Malformed('pHYs')
        elif typ[0] & 0x20 == 0:
            raise Malformed('unknown critical chunk %r' % typ)
    if ctype == 3:
        if plte is None:
            raise Malformed('no PLTE')
        if len(plte) > (1 << depth):
            raise Malformed('PLTE has %d entries for depth %d' % (len(plte), depth))
        if trns is not None and len(trns) > len(plte):
            raise Malformed('tRNS longer than PLTE')
    elif plte is not None and ctype in (0, 4):
        raise Malformed('PLTE in greyscale image')
    if ctype == 0 and trns is not None and len(trns) != 2:
        raise Malformed('tRNS length for greyscale')
    raw = zlib.decompress(idat)
    channels = {0: 1, 3: 1, 2: 3, 4: 2, 6: 4}[ctype]
    bpp_bits = channels * depth
    stride = (w * bpp_bits + 7) // 8
    if len(raw) != h * (stride + 1):
        raise Malformed('IDAT holds %d bytes, expected %d' % (len(raw), h * (stride + 1)))
    bpp = max(1, bpp_bits // 8)
    prev = bytearray(stride)
    rows = []
    for y in range(h):
        ft = raw[y * (stride + 1)]
        line = bytearray(raw[y * (stride + 1) + 1:(y + 1) * (stride + 1)])
        if ft == 0:
            pass
        elif ft == 1:
            for i in range(bpp, stride):
                line[i] = (line[i] + line[i - bpp]) & 255
        elif ft == 2:
            for i in range(stride):
                line[i] = (line[i] + prev[i]) & 255
        elif ft == 3:
            for i in range(stride):
                a = line[i - bpp] if i >= bpp else 0
                line[i] = (line[i] + ((a + prev[i]) >> 1)) & 255
        elif ft == 4:
            for i in range(stride):
                a = line[i - bpp] if i >= bpp else 0
                c = prev[i - bpp] if i >= bpp else 0
                line[i] = (line[i] + _paeth(a, prev[i], c)) & 255
        else:
            raise Malformed('filter type %d' % ft)
        rows.append(line)
        prev = line
    maxv = (1 << depth) - 1
    gtrns = struct.unpack('>H', trns)[0] if (ctype == 0 and trns is not None) else None
    pixels = []
    for line in rows:
        out = []
        if depth < 8:
            vals = []
            per = 8 // depth
            for byte in line:
                for k in range(per):
                    vals.append((byte >> (8 - depth * (k + 1))) & maxv)
            vals = vals[:w]
            # padding bits are unspecified by PNG; not judged
        else:
            vals = None
        for x in range(w):
            if ctype == 0:
                v = vals[x] if vals is not None else line[x]
                g = v * 255 // maxv
                out.append((g, g, g, 0 if v == gtrns else 255))
            elif ctype == 3:
                v = vals[x] if vals is not None else line[x]
                if v >= len(plte):
                    raise Malformed('palette index %d out of range' % v)
                a = trns[v] if trns is not None and v < len(trns) else 255
                out.append(plte[v] + (a,))
            elif ctype == 2:
                out.append(tuple(line[3 * x:3 * x + 3]) + (255,))
            elif ctype == 6:
                out.append(tuple(line[4 * x:4 * x + 4]))
            elif ctype == 4:
                out.append((line[2 * x],) * 3 + (line[2 * x + 1],))
        pixels.append(out)
    info = dict(depth=depth, ctype=ctype, phys=[c[1] for c in chunks if c[0] == b'pHYs'])
    return w, h, pixels, info


def _netpbm_tokens(data, n):
    """Reads n whitespace separated header tokens (with # comments) and returns (tokens, offset after the single
    whitespace byte that follows the last token)."""
    toks = []
    p = 0
    while len(toks) < n:
        while p < len(data) and data[p:p + 1].isspace():
            p += 1
        if data[p:p + 1] == b'#':
            while p < len(data) and data[p:p + 1] != b'\n':
                p += 1
            continue
        s = p
        while p < len(data) and not data[p:p + 1].isspace() and data[p:p + 1] != b'#':
            p += 1
        if s == p:
            raise Malformed('header truncated')
        toks.append(data[s:p])
    return toks, p


def _int(tok, what):
    if not re.fullmatch(rb'[0-9]+', tok):
        raise Malformed('%s is %r, not an integer' % (what, tok))
    return int(tok)


def read_pbm(data):
    toks, p = _netpbm_tokens(data, 3)
    magic = toks[0]
    w, h = _int(toks[1], 'width'), _int(toks[2], 'height')
    BLACK, WHITE = (0, 0, 0, 255), (255, 255, 255, 255)
    if magic == b'P4':
        if not data[p:p + 1].isspace():
            raise Malformed('no whitespace after header')
        body = data[p + 1:]
        stride = (w + 7) // 8
        if len(body) != stride * h:
            raise Malformed('P4 body %d bytes, expected %d' % (len(body), stride * h))
        px = []
        for y in range(h):
            row = body[y * stride:(y + 1) * stride]
            px.append([BLACK if (row[x >> 3] >> (7 - (x & 7))) & 1 else WHITE for x in range(w)])
        return w, h, px, {}
    if magic == b'P1':
        bits = re.findall(rb'[01]', re.sub(rb'#[^\n]*', b'', data[p:]))
        rest = re.sub(rb'[01\s]', b'', re.sub(rb'#[^\n]*', b'', data[p:]))
        if rest:
            raise Malformed('P1 garbage %r' % rest[:10])
        if len(bits) != w * h:
            raise Malformed('P1 has %d bits, expected %d' % (len(bits), w * h))
        px = [[BLACK if bits[y * w + x] == b'1' else WHITE for x in range(w)] for y in range(h)]
        return w, h, px, {}
    raise Malformed('magic %r' % magic)


def read_ppm(data):
    toks, p = _netpbm_tokens(data, 4)
    if toks[0] != b'P6':
        raise Malformed('magic')
    w, h, mx = _int(toks[1], 'width'), _int(toks[2], 'height'), _int(toks[3], 'maxval')
    if not 0 < mx < 256 or not data[p:p + 1].isspace():
        raise Malformed('maxval/header')
    body = data[p + 1:]
    if len(body) != 3 * w * h:
        raise Malformed('P6 body %d, expected %d' % (len(body), 3 * w * h))
    px = [[tuple(body[3 * (y * w + x):3 * (y * w + x) + 3]) + (255,) for x in range(w)] for y in range(h)]
    return w, h, px, {'maxval': mx}


def read_pam(data):
    end = data.find(b'ENDHDR\n')
    if not data.startswith(b'P7\n') or end < 0:
        raise Malformed('PAM header')
    hdr = {}
    for line in data[3:end].split(b'\n'):
        if not line or line.startswith(b'#'):
            continue
        k, _, v = line.partition(b' ')
        hdr[k] = v
    w, h, d, mx = (_int(hdr.get(k, b''), k.decode()) for k in (b'WIDTH', b'HEIGHT', b'DEPTH', b'MAXVAL'))
    tt = hdr.get(b'TUPLTYPE', b'').decode()
    body = data[end + 7:]
    if len(body) != w * h * d:
        raise Malformed('PAM body %d, expected %d' % (len(body), w * h * d))
    want = {'BLACKANDWHITE': 1, 'GRAYSCALE': 1, 'GRAYSCALE_ALPHA': 2, 'RGB': 3, 'RGB_ALPHA': 4, 'BLACKANDWHITE_ALPHA': 2}
    if tt not in want or want[tt] != d:
        raise Malformed('TUPLTYPE %s with depth %d' % (tt, d))
    if tt.startswith('BLACKANDWHITE') and mx != 1:
        raise Malformed('BLACKANDWHITE maxval %d' % mx)
    if any(b > mx for b in body):
        raise Malformed('sample exceeds MAXVAL %d' % mx)
    sc = lambda v: v * 255 // mx
    px = []
    for y in range(h):
        row = []
        for x in range(w):
            t = body[(y * w + x) * d:(y * w + x + 1) * d]
            if d == 1:
                row.append((sc(t[0]),) * 3 + (255,))
            elif d == 2:
                row.append((sc(t[0]),) * 3 + (sc(t[1]),))
            elif d == 3:
                row.append((sc(t[0]), sc(t[1]), sc(t[2]), 255))
            else:
                row.append((sc(t[0]), sc(t[1]), sc(t[2]), sc(t[3])))
        px.append(row)
    return w, h, px, {'tupltype': tt, 'maxval': mx}


def read_xbm(text, name='img'):
    m = re.fullmatch(r'#define (\w+)_width (\S+)\n#define (\w+)_height (\S+)\nstatic unsigned char (\w+)_bits\[\] = \{\n(.*)\};\n',
                     text, re.S)
    if not m:
        raise Malformed('XBM structure')
    if not (m.group(1) == m.group(3) == m.group(5) == name):
        raise Malformed('XBM names')
    if not m.group(2).isdigit() or not m.group(4).isdigit():
        raise Malformed('XBM size %r %r' % (m.group(2), m.group(4)))
    w, h = int(m.group(2)), int(m.group(4))
    body = m.group(6)
    toks = [t.strip() for t in body.replace('\n', ' ').split(',')]
    if toks and toks[-1] == '':
        raise Malformed('trailing comma')
    vals = []
    for t in toks:
        if not re.fullmatch(r'0x[0-9a-fA-F]{2}', t):
            raise Malformed('XBM token %r' % t)
        vals.append(int(t, 16))
    stride = (w + 7) // 8
    if len(vals) != stride * h:
        raise Malformed('XBM has %d bytes, expected %d' % (len(vals), stride * h))
    BLACK, WHITE = (0, 0, 0, 255), (255, 255, 255, 255)
    px = [[BLACK if (vals[y * stride + (x >> 3)] >> (x & 7)) & 1 else WHITE for x in range(w)] for y in range(h)]
    return w, h, px, {}


def read_xpm(text, name='img'):
    m = re.fullmatch(r'/\* XPM \*/\nstatic char \*(\w+)\[\] = \{\n(.*)\};\n', text, re.S)
    if not m or m.group(1) != name:
        raise Malformed('XPM structure')
    lines = m.group(2).split('\n')
    if lines[-1] != '':
        raise Malformed('XPM end')
    lines = lines[:-1]
    strs = []
    for k, ln in enumerate(lines):
        last = k == len(lines) - 1
        mm = re.fullmatch(r'"([^"]*)"(,?)', ln)
        if not mm or (mm.group(2) == ',') == last:
            raise Malformed('XPM line %d %r' % (k, ln[:30]))
        strs.append(mm.group(1))
    hv = strs[0].split()
    if len(hv) != 4 or not all(v.isdigit() for v in hv):
        raise Malformed('XPM values %r' % strs[0])
    w, h, nc, cpp = map(int, hv)
    if cpp != 1 or len(strs) != 1 + nc + h:
        raise Malformed('XPM counts')
    cmap = {}
    for s in strs[1:1 + nc]:
        mm = re.fullmatch(r'(.) c (#[0-9a-fA-F]{6}|None)', s)
        if not mm:
            raise Malformed('XPM colour %r' % s)
        c = mm.group(2)
        cmap[mm.group(1)] = (0, 0, 0, 0) if c == 'None' else (int(c[1:3], 16), int(c[3:5], 16), int(c[5:7], 16), 255)
    px = []
    for s in strs[1 + nc:]:
        if len(s) != w:
            raise Malformed('XPM row length %d != %d' % (len(s), w))
        try:
            px.append([cmap[ch] for ch in s])
        except KeyError as e:
            raise Malformed('XPM undefined char %r' % e)
    return w, h, px, {}
