"""Independent readers for the vector outputs.  Each returns a Doc:
   page      (width, height) in output units or None
   segs      list of (x1, y1, x2, y2, linewidth, colour, opacity) stroked segments in page coordinates, y down
   fills     list of (x, y, w, h, colour, opacity) filled rectangles in page coordinates, y down
   unit      size of one module in page units (taken from the document's transform / line width)
"""
import re
import zlib
import xml.etree.ElementTree as ET


class Malformed(Exception):
    pass


class Doc:
    def __init__(self):
        self.page = None
        self.segs = []
        self.fills = []
        self.unit = 1.0
        self.info = {}


_NUM = r'[-+]?(?:\d+\.?\d*|\.\d+)(?:[eE][-+]?\d+)?'


def _parse_transform(t):
    if t is None:
        return 1.0
    m = re.fullmatch(r'scale\((%s)\)' % _NUM, t.strip())
    if not m:
        raise Malformed('transform %r' % t)
    return float(m.group(1))


def read_svg(data, expect_decl=None):
    text = data.decode('utf-8') if isinstance(data, bytes) else data
    root = ET.fromstring(text.encode('utf-8') if '<?xml' in text[:10] else text)
    ns = ''
    tag = root.tag
    if tag.startswith('{'):
        ns, tag = tag[1:].split('}')
    if tag != 'svg':
        raise Malformed('root %r' % root.tag)
    doc = Doc()
    doc.info['ns'] = ns
    doc.info['attrs'] = dict(root.attrib)
    w, h, vb = root.get('width'), root.get('height'), root.get('viewBox')

    def num_unit(v):
        m = re.fullmatch(r'(%s)([a-z%%]*)' % _NUM, v)
        if not m:
            raise Malformed('length %r' % v)
        return float(m.group(1)), m.group(2)
    if w is not None and h is not None:
        (wv, wu), (hv, hu) = num_unit(w), num_unit(h)
        doc.page = (wv, hv)
        doc.info['unit'] = wu
        if wu != hu:
            raise Malformed('units differ')
    if vb is not None:
        p = vb.split()
        if len(p) != 4 or float(p[0]) or float(p[1]):
            raise Malformed('viewBox %r' % vb)
        if doc.page is not None and (abs(float(p[2]) - doc.page[0]) > 1e-9 or abs(float(p[3]) - doc.page[1]) > 1e-9):
            raise Malformed('viewBox %r differs from width/height %r' % (vb, doc.page))
        doc.page = (float(p[2]), float(p[3]))
    if doc.page is None:
        raise Malformed('no size')
    q = lambda n: '{%s}%s' % (ns, n) if ns else n
    doc.info['title'] = [e.text for e in root.findall(q('title'))]
    doc.info['desc'] = [e.text for e in root.findall(q('desc'))]

    def walk(el, scale):
        for ch in el:
            t = ch.tag.split('}')[-1]
            if t in ('title', 'desc'):
                continue
            if t == 'g':
                walk(ch, scale * _parse_transform(ch.get('transform')))
            elif t == 'path':
                s = scale * _parse_transform(ch.get('transform'))
                _svg_path(doc, ch, s)
            else:
                raise Malformed('element %r' % t)
    walk(root, 1.0)
    return doc


def _svg_path(doc, el, s):
    d = el.get('d')
    toks = re.findall(r'[MmhvzHVZLl]|%s' % _NUM, d)
    if ''.join(toks) != re.sub(r'[\s,]', '', d):
        raise Malformed('path data %r' % d[:40])
    stroke, fill = el.get('stroke'), el.get('fill')
    x = y = 0.0
    sx = sy = 0.0
    i = 0
    pts = []
    segs = []
    closed = False
    while i < len(toks):
        c = toks[i]
        i += 1
        if c in 'Mm':
            nx, ny = float(toks[i]), float(toks[i + 1])
            i += 2
            if c == 'm':
                nx, ny = x + nx, y + ny
            x, y = nx, ny
            sx, sy = x, y
            pts.append((x, y))
        elif c == 'h':
            dx = float(toks[i])
            i += 1
            segs.append((x, y, x + dx, y))
            x += dx
            pts.append((x, y))
        elif c == 'v':
            dy = float(toks[i])
            i += 1
            segs.append((x, y, x, y + dy))
            y += dy
            pts.append((x, y))
        elif c in 'zZ':
            closed = True
            x, y = sx, sy
        else:
            raise Malformed('path command %r' % c)
    if fill is not None and stroke is None:
        if not closed:
            raise Malformed('fill path not closed')
        xs = [p[0] for p in pts]
        ys = [p[1] for p in pts]
        # must be an axis-parallel rectangle
        if len(set(xs)) != 2 or len(set(ys)) != 2:
            raise Malformed('fill path is not a rectangle')
        doc.fills.append((min(xs) * s, min(ys) * s, (max(xs) - min(xs)) * s, (max(ys) - min(ys)) * s,
                          fill, el.get('fill-opacity')))
    else:
        if closed:
            raise Malformed('closed stroke path')
        sw = float(el.get('stroke-width', '1'))
        for (x1, y1, x2, y2) in segs:
            doc.segs.append((x1 * s, y1 * s, x2 * s, y2 * s, sw * s, stroke, el.get('stroke-opacity')))
    doc.unit = s


# ----------------------------------------------------------------------------------------- EPS
def read_eps(text):
    lines = text.split('\n')
    if lines[0] != '%!PS-Adobe-3.0 EPSF-3.0':
        raise Malformed('EPS header')
    if any(len(l) > 255 for l in lines):
        raise Malformed('line longer than 255')
    doc = Doc()
    bb = [l for l in lines if l.startswith('%%BoundingBox:')]
    if len(bb) != 1:
        raise Malformed('BoundingBox')
    p = bb[0].split()[1:]
    if len(p) != 4 or float(p[0]) or float(p[1]):
        raise Malformed('BoundingBox %r' % bb[0])
    doc.page = (float(p[2]), float(p[3]))
    if lines[-1] != '' or lines[-2] != '%%EOF':
        raise Malformed('EPS end')
    body = ' '.join(l for l in lines if not l.startswith('%'))
    toks = body.split()
    stack = []
    defs = {}
    ctm = 1.0
    cur = None
    colour = (0.0, 0.0, 0.0)
    path = []
    i = 0
    H = doc.page[1]
    stroked = False
    while i < len(toks):
        t = toks[i]
        i += 1
        if re.fullmatch(_NUM, t):
            stack.append(float(t))
        elif t.startswith('/'):
            # /name { body } bind def
            if toks[i] != '{':
                raise Malformed('def')
            j = toks.index('}', i)
            defs[t[1:]] = toks[i + 1:j]
            if toks[j + 1:j + 3] != ['bind', 'def']:
                raise Malformed('bind def')
            i = j + 3
        else:
            ops = defs.get(t, [t])
            for op in ops:
                if op == 'setrgbcolor':
                    b, g, r = stack.pop(), stack.pop(), stack.pop()
                    colour = (r, g, b)
                elif op == 'clippath':
                    cur = 'clip'
                elif op == 'fill':
                    if cur != 'clip':
                        raise Malformed('fill without clippath')
                    doc.fills.append((0, 0, doc.page[0], doc.page[1], colour, None))
                    cur = None
                elif op == 'scale':
                    sy, sx = stack.pop(), stack.pop()
                    if sx != sy:
                        raise Malformed('anisotropic scale')
                    ctm *= sx
                elif op == 'newpath':
                    path = []
                    cur = None
                elif op == 'moveto':
                    y, x = stack.pop(), stack.pop()
                    cur = (x, y)
                elif op == 'rmoveto':
                    dy, dx = stack.pop(), stack.pop()
                    if not isinstance(cur, tuple):
                        raise Malformed('rmoveto without a current point (nocurrentpoint)')
                    cur = (cur[0] + dx, cur[1] + dy)
                elif op == 'rlineto':
                    dy, dx = stack.pop(), stack.pop()
                    if not isinstance(cur, tuple):
                        raise Malformed('rlineto without a current point (nocurrentpoint)')
                    nxt = (cur[0] + dx, cur[1] + dy)
                    path.append((cur, nxt))
                    cur = nxt
                elif op == 'stroke':
                    for (a, b) in path:
                        doc.segs.append((a[0] * ctm, H - a[1] * ctm, b[0] * ctm, H - b[1] * ctm, 1.0 * ctm, colour, None))
                    path = []
                    cur = None          # stroke performs an implicit newpath: the current point becomes undefined
                    stroked = True
                else:
                    raise Malformed('operator %r' % op)
    if stack:
        raise Malformed('operand stack not empty')
    if not stroked:
        raise Malformed('no stroke')
    doc.unit = ctm
    return doc


# ----------------------------------------------------------------------------------------- PDF
def read_pdf(data):
    if not data.startswith(b'%PDF-1.'):
        raise Malformed('PDF header')
    if not data.rstrip(b'\r\n').endswith(b'%%EOF'):
        raise Malformed('no %%EOF')
    m = re.search(rb'startxref\r?\n(\d+)\r?\n%%EOF', data)
    if not m:
        raise Malformed('startxref')
    xpos = int(m.group(1))
    if data[xpos:xpos + 4] != b'xref':
        raise Malformed('startxref does not point at xref')
    m = re.match(rb'xref\r?\n0 (\d+)\r?\n', data[xpos:])
    n = int(m.group(1))
    p = xpos + m.end()
    entries = []
    for k in range(n):
        e = data[p:p + 20]
        mm = re.fullmatch(rb'(\d{10}) (\d{5}) ([nf])(?: \r| \n|\r\n)', e)
        if not mm:
            raise Malformed('xref entry %d %r' % (k, e))
        entries.append((int(mm.group(1)), int(mm.group(2)), mm.group(3)))
        p += 20
    if entries[0][2] != b'f':
        raise Malformed('xref entry 0')
    tr = re.search(rb'trailer\s*<<(.*?)>>', data[p:], re.S)
    if not tr:
        raise Malformed('trailer')
    root = int(re.search(rb'/Root (\d+) 0 R', tr.group(1)).group(1))
    doc = Doc()
    objs = {}
    defined = set(int(x) for x in re.findall(rb'(?:^|[\r\n])(\d+) 0 obj', data))
    for num in sorted(defined):
        if num >= len(entries):
            raise Malformed('object %d not in xref' % num)
        off = entries[num][0]
        head = b'%d 0 obj' % num
        if data[off:off + len(head)] != head:
            raise Malformed('xref offset of object %d points at %r' % (num, data[off:off + 12]))
        end = data.find(b'endobj', off)
        nxt = min([entries[k][0] for k in defined if entries[k][0] > off] + [xpos])
        if end < 0 or end > nxt:
            raise Malformed('object %d has no endobj' % num)
        objs[num] = data[off + len(head):end]
    doc.info['objects'] = sorted(objs)
    cat = objs[root]
    pages = int(re.search(rb'/Pages (\d+) 0 R', cat).group(1))
    kid = int(re.search(rb'/Kids \[(\d+) 0 R\]', objs[pages]).group(1))
    page = objs[kid]
    mb = re.search(rb'/MediaBox \[([^\]]*)\]', page).group(1).split()
    if len(mb) != 4 or float(mb[0]) or float(mb[1]):
        raise Malformed('MediaBox')
    doc.page = (float(mb[2]), float(mb[3]))
    cont = int(re.search(rb'/Contents (\d+) 0 R', page).group(1))
    c = objs[cont]
    length = int(re.search(rb'/Length (\d+)', c).group(1))
    sm = re.search(rb'stream\r\n', c)
    stream = c[sm.end():sm.end() + length]
    tail = c[sm.end() + length:]
    if not re.fullmatch(rb'\r?\n?endstream\r?\n?', tail):
        raise Malformed('/Length %d does not match the stream (tail %r)' % (length, tail[:20]))
    if b'/FlateDecode' in c[:sm.start()]:
        dec = zlib.decompressobj()
        raw = dec.decompress(stream)
        if not dec.eof or dec.unused_data:
            raise Malformed('/Length %d: the stream is not exactly one Flate stream (%d bytes left over)' % (length, len(dec.unused_data)))
        stream = raw
    toks = stream.decode('ascii').split()
    stack = []
    a = d = 1.0
    e = f = 0.0           # CTM restricted to scale+translate
    H = doc.page[1]
    fillc = strokec = (0.0, 0.0, 0.0)
    cur = None
    path = []
    rects = []
    for t in toks:
        if re.fullmatch(_NUM, t):
            stack.append(float(t))
            continue
        if t == 'cm':
            f2, e2, d2, c2, b2, a2 = [stack.pop() for _ in range(6)]
            if b2 or c2:
                raise Malformed('rotation in cm')
            # new CTM = M x CTM
            e, f = a * e2 + e, d * f2 + f
            a, d = a * a2, d * d2
        elif t == 'rg':
            b_, g_, r_ = stack.pop(), stack.pop(), stack.pop()
            fillc = (r_, g_, b_)
        elif t == 'RG':
            b_, g_, r_ = stack.pop(), stack.pop(), stack.pop()
            strokec = (r_, g_, b_)
        elif t == 're':
            h_, w_, y_, x_ = stack.pop(), stack.pop(), stack.pop(), stack.pop()
            rects.append((x_, y_, w_, h_))
        elif t == 'f':
            for (x_, y_, w_, h_) in rects:
                X, Y, W, Hh = a * x_ + e, d * y_ + f, a * w_, d * h_
                doc.fills.append((X, H - (Y + Hh), W, Hh, fillc, None))
            rects = []
        elif t in ('q', 'Q'):
            pass
        elif t == 'm':
            y_, x_ = stack.pop(), stack.pop()
            cur = (x_, y_)
        elif t == 'l':
            y_, x_ = stack.pop(), stack.pop()
            path.append((cur, (x_, y_)))
            cur = (x_, y_)
        elif t == 'S':
            for (p1, p2) in path:
                doc.segs.append((a * p1[0] + e, H - (d * p1[1] + f), a * p2[0] + e, H - (d * p2[1] + f), 1.0 * a, strokec, None))
            path = []
        else:
            raise Malformed('PDF operator %r' % t)
    if stack:
        raise Malformed('operand stack not empty')
    doc.unit = a
    return doc


# ----------------------------------------------------------------------------------------- PGF/TikZ
def read_tex(text):
    doc = Doc()
    lines = text.split('\n')
    if not lines[0].startswith('% Creator:') or not lines[1].startswith('% Date:'):
        raise Malformed('tex header')
    body = '\n'.join(lines[2:])
    m = re.fullmatch(r'(?:\\href\{([^}]*)\}\{)?\\begin\{pgfpicture\}\n(.*)\\end\{pgfpicture\}(\}?)\n', body, re.S)
    if not m or bool(m.group(1) is not None) != (m.group(3) == '}'):
        raise Malformed('tex structure')
    doc.info['url'] = m.group(1)
    inner = m.group(2).split('\n')
    if inner[-1] != '':
        raise Malformed('tex inner end')
    inner = inner[:-1]
    lw = re.fullmatch(r'  \\pgfsetlinewidth\{(%s)([a-z]+)\}' % _NUM, inner[0])
    if not lw:
        raise Malformed('linewidth %r' % inner[0])
    unit = lw.group(2)
    width = float(lw.group(1))
    k = 1
    colour = 'black'
    cm = re.fullmatch(r'  \\color\{([^}]+)\}', inner[k])
    if cm:
        colour = cm.group(1)
        k += 1
    if inner[-1] != '  \\pgfusepath{stroke}':
        raise Malformed('usepath')
    pts = inner[k:-1]
    if len(pts) % 2:
        raise Malformed('odd number of path commands')
    pt = r'\\pgfqpoint\{(%s)%s\}\{(%s)%s\}' % (_NUM, unit, _NUM, unit)
    for i in range(0, len(pts), 2):
        m1 = re.fullmatch(r'  \\pgfpathmoveto\{%s\}' % pt, pts[i])
        m2 = re.fullmatch(r'  \\pgfpathlineto\{%s\}' % pt, pts[i + 1])
        if not m1 or not m2:
            raise Malformed('path line %r' % pts[i])
        doc.segs.append((float(m1.group(1)), -float(m1.group(2)), float(m2.group(1)), -float(m2.group(2)), width, colour, None))
    doc.unit = width
    doc.info['unit'] = unit
    return doc


def rasterise(doc, cells, origin=(0.0, 0.0)):
    """Maps stroked segments to module-grid cells.  Returns (count[r][c], problems)."""
    u = doc.unit
    ox, oy = origin
    grid = [[0] * cells for _ in range(cells)]
    problems = []
    for (x1, y1, x2, y2, lw, colour, op) in doc.segs:
        if abs(y1 - y2) > 1e-9 * max(1, abs(y1)):
            problems.append('non-horizontal segment')
            continue
        if abs(lw - u) > 1e-9 * u:
            problems.append('line width %r != module %r' % (lw, u))
        r = (y1 - oy) / u - 0.5
        c1, c2 = (min(x1, x2) - ox) / u, (max(x1, x2) - ox) / u
        rr, a, b = round(r), round(c1), round(c2)
        if abs(r - rr) > 1e-6 or abs(c1 - a) > 1e-6 or abs(c2 - b) > 1e-6:
            problems.append('segment off the module grid: row %r cols %r..%r' % (r, c1, c2))
            continue
        for c in range(a, b):
            if 0 <= rr < cells and 0 <= c < cells:
                grid[rr][c] += 1
            else:
                problems.append('segment outside the page at row %d col %d' % (rr, c))
    return grid, problems


def paint_grid(doc, cells, origin=(0.0, 0.0)):
    """grid[r][c] = list of (colour, opacity) of the stroked segments covering module-grid cell (r, c);
    returns (grid, problems)."""
    u = doc.unit
    ox, oy = origin
    grid = [[[] for _ in range(cells)] for _ in range(cells)]
    problems = []
    for (x1, y1, x2, y2, lw, colour, op) in doc.segs:
        if abs(y1 - y2) > 1e-9 * max(1, abs(y1)):
            problems.append('non-horizontal segment')
            continue
        if abs(lw - u) > 1e-9 * u:
            problems.append('line width %r != module %r' % (lw, u))
        r = (y1 - oy) / u - 0.5
        c1, c2 = (min(x1, x2) - ox) / u, (max(x1, x2) - ox) / u
        rr, a, b = round(r), round(c1), round(c2)
        if abs(r - rr) > 1e-6 or abs(c1 - a) > 1e-6 or abs(c2 - b) > 1e-6:
            problems.append('segment off the module grid: row %r cols %r..%r' % (r, c1, c2))
            continue
        for c in range(a, b):
            if 0 <= rr < cells and 0 <= c < cells:
                grid[rr][c].append((colour, op))
            else:
                problems.append('segment outside the page at row %d col %d' % (rr, c))
    return grid, problems
