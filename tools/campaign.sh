#!/bin/bash
# Runs every patch under mutants/ and seeded/ through tools/mutant.py (own property's check + meta.json also_run) and prints one
# line each.  PAR=<n> runs n patches at a time (default 1).
cd /verif
one() {
  d=$1
  [ -f $d/patch.diff ] || exit 0
  out=$(python3 tools/mutant.py $d/patch.diff 2>&1)
  echo "$d :: $(echo "$out" | grep SUMMARY)"
  echo "$out" > $d/last_run.txt
}
export -f one
printf '%s\n' ${@:-mutants/* seeded/*} | xargs -P ${PAR:-1} -I{} bash -c 'one {}'
