#!/bin/bash
# Runs every patch under mutants/ and seeded/ through tools/mutant.py (own property's check) and prints one line each.
cd /verif
for d in ${@:-mutants/* seeded/*}; do
  [ -f $d/patch.diff ] || continue
  out=$(python3 tools/mutant.py $d/patch.diff 2>&1)
  echo "$d :: $(echo "$out" | grep SUMMARY)"
  echo "$out" > $d/last_run.txt
done
