#!/usr/bin/env python3
"""Confirms a seeded change produced by an independent sub-agent and files it under /verif/seeded/<id>/.

  tools/ingest_seed.py C04 A        (reads /tmp/seed-C04-out/{A.diff,demo_A.py,NOTES.md})

Confirmation (all in a scratch worktree of /repo outside /repo and /verif, removed afterwards):
  demo on the unchanged tree -> exit 0;  patch applies;  baseline suite green with the patch;  demo with the patch -> exit != 0.
"""
import json
import os
import shutil
import subprocess
import sys
import time

VERIF = os.path.dirname(os.path.dirname(os.path.abspath(__file__)))


def sh(cmd, **kw):
    return subprocess.run(cmd, capture_output=True, text=True, **kw)


def main():
    prop, which = sys.argv[1].upper(), sys.argv[2].upper()
    rnd = sys.argv[3] if len(sys.argv) > 3 else 'seed'
    src = '/tmp/%s-%s-out' % (rnd, prop)
    diff = os.path.join(src, '%s.diff' % which)
    demo = os.path.join(src, 'demo_%s.py' % which)
    wt = '/tmp/ingest-%s-%s-%s' % (rnd, prop, which)
    sh(['git', '-C', '/repo', 'worktree', 'remove', '--force', wt])
    sh(['git', '-C', '/repo', 'worktree', 'add', '--detach', '-f', wt, 'HEAD'])
    res = {}
    try:
        env = dict(os.environ, SEGNO_REPO=wt, PYTHONPATH=wt, PYTHONDONTWRITEBYTECODE='1')
        r = sh(['/venv/bin/python', demo], env=env, cwd=src, timeout=900)
        res['demo_unchanged_exit'] = r.returncode
        r = sh(['git', '-C', wt, 'apply', '--whitespace=nowarn', diff])
        res['patch_applies'] = r.returncode == 0
        if r.returncode != 0:
            print('PATCH DOES NOT APPLY', r.stderr[:300])
        t = time.time()
        r = sh(['/venv/bin/python', '-m', 'pytest', '-q', '-p', 'no:cacheprovider', '-n', '16', '--timeout=900'], cwd=wt, env=dict(os.environ, PYTHONDONTWRITEBYTECODE='1'))
        res['baseline_with_change'] = (r.stdout.strip().splitlines() or ['?'])[-1]
        res['baseline_green'] = r.returncode == 0
        r = sh(['/venv/bin/python', demo], env=env, cwd=src, timeout=900)
        res['demo_changed_exit'] = r.returncode
        res['demo_changed_tail'] = (r.stdout + r.stderr).strip().splitlines()[-1:] if (r.stdout + r.stderr).strip() else []
    finally:
        sh(['git', '-C', '/repo', 'worktree', 'remove', '--force', wt])
        shutil.rmtree(wt, ignore_errors=True)
        sh(['git', '-C', '/repo', 'worktree', 'prune'])
    ok = res.get('demo_unchanged_exit') == 0 and res.get('patch_applies') and res.get('baseline_green') and res.get('demo_changed_exit', 0) != 0
    print(json.dumps(res, indent=1))
    print('CONFIRMED' if ok else 'NOT CONFIRMED')
    if not ok:
        return 1
    dst = os.path.join(VERIF, 'seeded', '%s-%s%s' % (prop, '' if rnd == 'seed' else 'r' + rnd[-1], which))
    os.makedirs(dst, exist_ok=True)
    shutil.copy(diff, os.path.join(dst, 'patch.diff'))
    shutil.copy(demo, os.path.join(dst, 'demo.py'))
    notes = open(os.path.join(src, 'NOTES.md')).read() if os.path.exists(os.path.join(src, 'NOTES.md')) else ''
    open(os.path.join(dst, 'NOTES.md'), 'w').write(notes)
    meta = {'property': prop, 'origin': 'independent sub-agent given only the property text and a scratch worktree',
            'needs_to_manifest': 'see NOTES.md (section for change %s)' % which,
            'confirmed': {'by': 'tools/ingest_seed.py in a scratch worktree of /repo HEAD %s' % sh(['git', '-C', '/repo', 'rev-parse', '--short', 'HEAD']).stdout.strip(),
                          **res},
            'demo': 'SEGNO_REPO=<tree> /venv/bin/python demo.py  (exit 0 unchanged, != 0 with the change)'}
    json.dump(meta, open(os.path.join(dst, 'meta.json'), 'w'), indent=1)
    return 0


if __name__ == '__main__':
    sys.exit(main())
