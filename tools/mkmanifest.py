#!/usr/bin/env python3
"""Regenerates /verif/MANIFEST.json from the table below (keeps it valid at all times)."""
import json
import os

VERIF = os.path.dirname(os.path.dirname(os.path.abspath(__file__)))

# id -> (category, technique, text, note, design_ref)
CHECKS = {}


def add(pid, category, technique, text, note, ref):
    CHECKS[pid] = (category, technique, text, note, ref)


add('C02', 'exploration',
    'bounded-exhaustive enumeration of all 1312 (version, level, mask) triples of the real encoder, each read back by an independent ISO 18004 reference reader',
    'Every (version, level, mask) triple that exists is built and every module of every function pattern, both format copies (BCH) '
    'and both version copies (Golay) are compared with an independently derived geometry model; reported metadata is compared with '
    'what was read. The configuration space of the property is finite and is enumerated completely.',
    'Trusted: qrref geometry/BCH/Golay model (self-tested on ISO figures at every run), CPython. Data contents: 1-2 per triple.',
    'DESIGN.md section 5, C02')


add('C01', 'exploration',
    'bounded-exhaustive enumeration of contents x option vectors on the real encoder; every returned symbol decoded by an independent ISO 18004 reference reader (qrref)',
    'All byte strings of length <= 2, all strings of length <= n over a class alphabet, all option vectors with <= k deviations from the defaults, '
    'both sides of capacity for every (version, level, mode) and all short part sequences are encoded and read back; payload bytes and ECI headers must equal the statement. '
    'Exhaustive within the stated bounds; contents beyond them are not covered.',
    'Trusted: qrref reader (decodes the ISO figures at every run), Python codecs. Bounds in evidence.coverage.bounds.',
    'DESIGN.md section 5, C01')
add('C03', 'fault_enumeration',
    'exhaustive syndrome check of all 168 block layouts + enumeration of error patterns (all single-codeword errors, position pairs, bursts at every offset per block shape) corrected by an independent Berlekamp-Massey decoder',
    'Validity of every RS block of every (version, level) layout is decided on real symbols; fault patterns of weight <= floor(ec/2) are enumerated per code and must be corrected to the original; '
    'weight t+1 controls guard against a vacuous corrector.',
    'Trusted: qrref RS arithmetic (generated from x^8+x^4+x^3+x^2+1) and Table 9 typed independently of consts.ECC. The full weight<=t pattern set follows from validity (distance ec+1).',
    'DESIGN.md section 5, C03')
add('C04', 'model_checking',
    'explicit reference decision model (qrref.select) whose every prediction is replayed on segno.make: all capacity boundaries both sides, all lengths, requested versions, alternating multi-part contents',
    'The model (ordered version list, admissibility, ISO capacities with the candidate version\'s indicator widths) is evaluated on every configuration of the bounded space and each prediction '
    '(version or refusal, DataOverflowError) is replayed on the implementation; payloads are decoded near boundaries to exclude silent truncation.',
    'Trusted: qrref capacity tables (derived from geometry + Table 9). Contents are single-mode runs and alternating one-character parts.',
    'DESIGN.md section 5, C04')
add('C05', 'model_checking',
    'same model/enumeration as C04; predicted error level compared with QRCode.error and the level bits read from the format information; boost on/off pairs compared',
    'For every configuration of the C04 space the model level (boosting rule of the statement) is compared with the implementation and with the format information; '
    'version(boost=True) == version(boost=False) is checked for every boundary configuration.',
    'Trusted: qrref capacity tables and BCH format decoding.',
    'DESIGN.md section 5, C05')
add('C06', 'exploration',
    'exhaustive evaluation of all 8/4 mask candidates of every explored symbol by an independent ISO 7.8.3 scorer; all requested masks unmasked with independent Table 10 patterns',
    'For each explored symbol every candidate mask is rebuilt from the emitted matrix and scored independently; the chosen mask must be the lowest-numbered optimum. '
    'All 8/4 requested masks must unmask to the same data stream.',
    'Trusted: qrref penalty scorer (interpretations stated in DESIGN.md: light format areas, virtual light border for N3, both N4 boundary conventions accepted).',
    'DESIGN.md section 5, C06')
add('C07', 'exploration',
    'exhaustive small scope: all 65792 one- and two-byte inputs x 6 mode requests, 3-byte strings over a class alphabet, code points; three-valued model predicate; mode indicator read back',
    'Every 1- and 2-byte input is encoded with every mode request; the mode used must match the model predicate and the mode indicator decoded from the symbol.',
    'Trusted: model predicates (qrref.model) and stdlib shift_jis/gb2312 codecs; the kanji grey zone (unassigned cells) accepts either answer.',
    'DESIGN.md section 5, C07')
add('C09', 'exploration',
    'bounded-exhaustive product of symbol sizes x scales x borders x colour variants x options; each file parsed by an independent format reader and compared pixel by pixel',
    'Every produced PNG/PBM/PAM/PPM/XBM/XPM/TXT/ANSI/half-block output is parsed from its bytes (signature, CRCs, declared sizes) and each pixel is compared with the module it depicts.',
    'Trusted: readers written from the format specifications (zlib/struct/re only). One real symbol per size.',
    'DESIGN.md section 5, C09')
add('C10', 'exploration',
    'bounded-exhaustive product of sizes x scales (integer, fractional, < 1) x borders x colours x SVG option vectors (<= k deviations); independent SVG/EPS/PDF/PGF readers rasterise the strokes on the module grid',
    'Each document is parsed (XML, PostScript subset, PDF objects/xref/Flate stream, PGF), its own transform applied, and the covered cells compared with the dark modules; page size, colours, background, PDF offsets and /Length are checked.',
    'Trusted: readers for the operator subsets segno emits; anything else is malformed. PGF compared up to a translation.',
    'DESIGN.md section 5, C10')
add('C11', 'exploration',
    'every module position of all 44 symbol sizes compared with an independent ISO classification; colourful outputs parsed back for all option subsets up to a size bound',
    'Plain and verbose iteration are compared position by position with qrref.layout; colourful PNG/SVG/PPM are parsed and each cell compared with the colour configured for its type.',
    'Trusted: qrref.layout function map; format readers.',
    'DESIGN.md section 5, C11')
add('C13', 'model_checking',
    'reference bit-stream model (segments, terminator, bit padding, pad codewords) compared bit by bit with the data codewords read from every explored symbol over the residue x distance grid',
    'The model stream is computed for every content of the grid (every residue mod 8 and every distance 0..12 to capacity per version/level) and compared with the codewords recovered from the real symbol.',
    'Trusted: qrref stream model (reproduces ISO Annex I bit for bit). One known finding with an exact classifier.',
    'DESIGN.md section 5, C13')


add('C08', 'exploration',
    'bounded-exhaustive enumeration of content families x all lengths up to 16 x capacity x version / symbol_count; every symbol of every sequence decoded by qrref and header, parity, payload and count contracts checked',
    'All lengths 1..16 x per-symbol capacity (+4) for version 1 at every level, lengths around capacity multiples for larger versions, symbol_count 1..16 x lengths; '
    'one known finding (version-path symbol-count underestimate, pinned by a baseline test) with an exact classifier that restates the defective formula.',
    'Trusted: qrref reader; "message bytes" = requested encoding else first of ISO-8859-1 / Shift JIS / UTF-8 for the whole message.',
    'DESIGN.md section 5, C08')
add('C12', 'exploration',
    'bounded-exhaustive enumeration of option subsets per output kind; the document is produced through every route (path x 3 letter cases, stream+kind, named stream, data URIs, svg_inline, svgz, CLI argv) and compared byte for byte',
    'For 3 symbols + a sequence x 13 kinds x all option subsets up to size k, every route must yield the identical bytes (creation timestamps masked); CLI without -o vs QRCode.terminal; sequence file names; unknown extensions refused.',
    'Trusted: the API<->CLI flag table in checks/c12.py; quote normalisation of svg_data_uri applied to both sides.',
    'DESIGN.md section 5, C12')
add('C14', 'exploration',
    'bounded-exhaustive enumeration of argument vectors with <= k deviations over domains holding every documented spelling and the malformed values of the statement; outcome-class oracle + decode of accepted symbols; CLI as subprocess',
    'Every call must return a symbol that decodes to the content or raise ValueError (LookupError exactly for an unknown codec), under a watchdog; documented exclusions must be refused; alternative spellings must give the identical matrix; serialisers must refuse malformed colours / scales / borders / kinds.',
    'Trusted: the exclusion model in checks/c14.py (restates the statement), qrref reader. Documented argument types only.',
    'DESIGN.md section 5, C14')
add('C15', 'model_checking',
    'explicit-state BFS over call histories of the real library (object-graph state hashing, fork per transition) + all explicit histories up to length n + the same ~5900 calls in several orders + stateless enumeration of all 2-thread schedules with <= p preemptions under a settrace baton scheduler (line / call / opcode granularity and a partial-order-reduced "shared access" granularity), each schedule from the initial state, with a sequential epilogue',
    'E-hist: every operation of a ~100-call menu maps the initial state to itself (reachable state set {S0}, complete for all depths under the canonicaliser) and all ordered pairs (thorough: triples of a core menu) '
    'reproduce the fresh-interpreter observations; a long history gives the same results in every order; E-sched: all schedules with <= 1 preemption (<= 2 at shared-access granularity) for ~45 thread pairs give the sequential results and leave the library in the sequential state; idempotence over the C02/C04 configurations.',
    'Trusted: CPython GIL (no preemption inside C calls), the state canonicaliser (explicit histories do not rely on it), the static shared-access analysis of the reduced granularities (module globals, global-rebound names, mutable defaults). Two threads only.',
    'DESIGN.md section 5, C15')
add('C16', 'exploration',
    'exhaustive enumeration of all strings of length <= n over the delimiter/escape alphabet in every helper text field, field pairs, multi-values, EPC limits +-1; payloads parsed by independent MeCard/vCard/URI/EPC parsers',
    'Every payload is parsed back by a parser written from the format description and compared with the supplied values; factory symbols are decoded by qrref.',
    'Trusted: the parsers in checks/c16.py; closed-domain values drawn from their domain.',
    'DESIGN.md section 5, C16')

ALL = ['C%02d' % i for i in range(1, 17)]


def main():
    checks = []
    for pid in ALL:
        if pid not in CHECKS:
            continue
        cat, tech, text, note, ref = CHECKS[pid]
        checks.append({
            'property_id': pid,
            'quick_cmd': './check %s --tier quick' % pid,
            'thorough_cmd': './check %s --tier thorough' % pid,
            'evidence_file': '/verif/evidence/%s.json' % pid,
            'replay_cmd_template': './check %s --replay {path}' % pid,
            'engine': 'mc-python',
            'level_claimed': {'category': cat, 'text': text, 'design_ref': ref},
            'level_note': note,
            'technique': tech,
        })
    na = [{'property_id': pid, 'reason': 'check not built yet (work in progress; the design in DESIGN.md section 5 applies)'}
          for pid in ALL if pid not in CHECKS]
    man = {
        'version': 1,
        'setup_cmd': '/venv/bin/python tools/setup_check.py',
        'hooks': {
            'guard': 'SEGNO_VERIF',
            'enable': 'no source hooks: every observation and scheduling decision is made from outside the library '
                      '(sys.settrace scheduler, object-graph snapshots); checks import /repo (VERIF_REPO) directly',
            'baseline_off_cmd': 'cd /repo && /venv/bin/python -m pytest -q -p no:cacheprovider --timeout=900',
            'source_commits': [],
            'add_only': True,
        },
        'engines': [
            {'name': 'mc-python', 'path': '/verif/mc', 'serves_properties': [c['property_id'] for c in checks],
             'kind_free_text': 'hand-written explicit-state / bounded-exhaustive explorers for the real Python implementation: '
                               'E-space (case-space enumeration against the qrref ISO reference model and independent format readers), '
                               'E-hist (BFS over call histories with object-graph state hashing), '
                               'E-sched (stateless enumeration of 2-thread schedules under a settrace baton scheduler, '
                               'iterative preemption bounding)'},
        ],
        'checks': checks,
        'not_applicable': na,
        'notes': 'All checks: cwd /verif, interpreter /venv/bin/python, stdlib only, import the library from VERIF_REPO (default /repo). '
                 'Exit 0 held / 1 VIOLATION / 2 checker error. Known findings: /verif/KNOWN_FINDINGS.txt.',
    }
    if not na:
        man.pop('not_applicable')
        man['not_applicable'] = []
    with open(os.path.join(VERIF, 'MANIFEST.json'), 'w') as f:
        json.dump(man, f, indent=1)
        f.write('\n')


if __name__ == '__main__':
    main()
