#!/usr/bin/env python3
"""Regenerates /verif/MANIFEST.json from the table below (keeps it valid at all times)."""
import json
import os

VERIF = os.path.dirname(os.path.dirname(os.path.abspath(__file__)))

# id -> (category, technique, text, note, design_ref)
CHECKS = {}


def add(pid, category, technique, text, note, ref):
    CHECKS[pid] = (category, technique, text, note, ref)


add('C02', 'exploration',
    'bounded-exhaustive enumeration of all 1312 (version, level, mask) triples of the real encoder, each read back by an independent ISO 18004 reference reader',
    'Every (version, level, mask) triple that exists is built and every module of every function pattern, both format copies (BCH) '
    'and both version copies (Golay) are compared with an independently derived geometry model; reported metadata is compared with '
    'what was read. The configuration space of the property is finite and is enumerated completely.',
    'Trusted: qrref geometry/BCH/Golay model (self-tested on ISO figures at every run), CPython. Data contents: 1-2 per triple.',
    'DESIGN.md section 5, C02')

ALL = ['C%02d' % i for i in range(1, 17)]


def main():
    checks = []
    for pid in ALL:
        if pid not in CHECKS:
            continue
        cat, tech, text, note, ref = CHECKS[pid]
        checks.append({
            'property_id': pid,
            'quick_cmd': './check %s --tier quick' % pid,
            'thorough_cmd': './check %s --tier thorough' % pid,
            'evidence_file': '/verif/evidence/%s.json' % pid,
            'replay_cmd_template': './check %s --replay {path}' % pid,
            'engine': 'mc-python',
            'level_claimed': {'category': cat, 'text': text, 'design_ref': ref},
            'level_note': note,
            'technique': tech,
        })
    na = [{'property_id': pid, 'reason': 'check not built yet (work in progress; the design in DESIGN.md section 5 applies)'}
          for pid in ALL if pid not in CHECKS]
    man = {
        'version': 1,
        'setup_cmd': '/venv/bin/python tools/setup_check.py',
        'hooks': {
            'guard': 'SEGNO_VERIF',
            'enable': 'no source hooks: every observation and scheduling decision is made from outside the library '
                      '(sys.settrace scheduler, object-graph snapshots); checks import /repo (VERIF_REPO) directly',
            'baseline_off_cmd': 'cd /repo && /venv/bin/python -m pytest -q -p no:cacheprovider --timeout=900',
            'source_commits': [],
            'add_only': True,
        },
        'engines': [
            {'name': 'mc-python', 'path': '/verif/mc', 'serves_properties': [c['property_id'] for c in checks],
             'kind_free_text': 'hand-written explicit-state / bounded-exhaustive explorers for the real Python implementation: '
                               'E-space (case-space enumeration against the qrref ISO reference model and independent format readers), '
                               'E-hist (BFS over call histories with object-graph state hashing), '
                               'E-sched (stateless enumeration of 2-thread schedules under a settrace baton scheduler, '
                               'iterative preemption bounding)'},
        ],
        'checks': checks,
        'not_applicable': na,
        'notes': 'All checks: cwd /verif, interpreter /venv/bin/python, stdlib only, import the library from VERIF_REPO (default /repo). '
                 'Exit 0 held / 1 VIOLATION / 2 checker error. Known findings: /verif/KNOWN_FINDINGS.txt.',
    }
    if not na:
        man.pop('not_applicable')
        man['not_applicable'] = []
    with open(os.path.join(VERIF, 'MANIFEST.json'), 'w') as f:
        json.dump(man, f, indent=1)
        f.write('\n')


if __name__ == '__main__':
    main()
