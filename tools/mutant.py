#!/usr/bin/env python3
"""Detection campaign helper.

  tools/mutant.py <patch.diff> [C01 C07 ...] [--tier quick] [--no-baseline]

Copies /repo (HEAD working tree) to a scratch directory outside /repo and /verif, applies the patch, runs the
repository's baseline suite there (a mutant that fails it is 'unrealistic'), runs the named checks (default: the ones
in meta.json next to the patch, else all) with VERIF_REPO=<copy>, prints DETECTED / MISSED per check and removes the copy.
"""
import json
import os
import shutil
import subprocess
import sys
import tempfile
import time

VERIF = os.path.dirname(os.path.dirname(os.path.abspath(__file__)))
ALL = ['C%02d' % i for i in range(1, 17)]


def main():
    args = [a for a in sys.argv[1:] if not a.startswith('--')]
    flags = [a for a in sys.argv[1:] if a.startswith('--')]
    tier = 'quick'
    if '--tier' in sys.argv:
        tier = sys.argv[sys.argv.index('--tier') + 1]
        args.remove(tier)
    patch = os.path.abspath(args[0])
    checks = [a.upper() for a in args[1:]]
    meta = os.path.join(os.path.dirname(patch), 'meta.json')
    if not checks and os.path.exists(meta):
        m = json.load(open(meta))
        checks = [m['property']] if isinstance(m.get('property'), str) else list(m.get('property', []))
        checks += [c for c in m.get('also_run', []) if c not in checks]
    if not checks:
        checks = ALL
    tmp = tempfile.mkdtemp(prefix='segno-mutant-', dir='/tmp')
    repo = os.path.join(tmp, 'repo')
    try:
        for attempt in range(6):        # (parallel campaigns: `git worktree add` takes a lock on the repository)
            r = subprocess.run(['git', '-C', '/repo', 'worktree', 'add', '--detach', '-f', repo, 'HEAD'], capture_output=True, text=True)
            if r.returncode == 0:
                break
            time.sleep(1 + attempt)
        else:
            print('CANNOT CREATE WORKTREE: %s' % r.stderr[:200])
            return 2
        r = subprocess.run(['git', '-C', repo, 'apply', '--whitespace=nowarn', patch], capture_output=True, text=True)
        if r.returncode != 0:
            print('PATCH DOES NOT APPLY: %s' % r.stderr[:300])
            return 2
        base = 'skipped'
        if '--no-baseline' not in flags:
            t = time.time()
            r = subprocess.run(['/venv/bin/python', '-m', 'pytest', '-q', '-p', 'no:cacheprovider', '-n', '16', '-x', '--timeout=900'], cwd=repo,
                               capture_output=True, text=True, env=dict(os.environ, PYTHONDONTWRITEBYTECODE='1'))
            tail = r.stdout.strip().splitlines()[-1] if r.stdout.strip() else r.stderr[-200:]
            base = 'green' if r.returncode == 0 else 'RED'
            print('baseline: %s (%s, %.0fs)' % (base, tail, time.time() - t))
        res = {}
        for c in checks:
            t = time.time()
            env = dict(os.environ, VERIF_REPO=repo, VERIF_CONFIRM='0', VERIF_EVIDENCE_DIR=os.path.join(tmp, 'evidence'))
            r = subprocess.run([os.path.join(VERIF, 'check'), c, '--tier', tier], capture_output=True, text=True, env=env, cwd=VERIF)
            lines = [ln for ln in r.stdout.splitlines() if ln.startswith('VIOLATION')]
            err = [ln for ln in r.stdout.splitlines() if ln.startswith('CHECKER-ERROR')]
            verdict = 'DETECTED' if r.returncode == 1 and lines else ('CHECKER-ERROR' if r.returncode == 2 else 'MISSED')
            res[c] = verdict
            print('%s: %s (exit %d, %d violation lines, %.0fs)' % (c, verdict, r.returncode, len(lines), time.time() - t))
            for ln in lines[:3]:
                print('    ' + ln[:260])
            for ln in err[:2]:
                print('    ' + ln[:260])
        print('SUMMARY baseline=%s %s' % (base, ' '.join('%s=%s' % kv for kv in res.items())))
        return 0
    finally:
        subprocess.run(['git', '-C', '/repo', 'worktree', 'remove', '--force', repo], capture_output=True)
        shutil.rmtree(tmp, ignore_errors=True)
        subprocess.run(['git', '-C', '/repo', 'worktree', 'prune'], capture_output=True)


if __name__ == '__main__':
    sys.exit(main())
