#!/venv/bin/python
"""Mechanical mutation sweep over the library's decision logic.

  tools/mutation_sweep.py enumerate  <module> ...          list the mutants (comparison flips, and/or swaps, dropped `not`,
                                                           +1 on integer constants that are compared against)
  tools/mutation_sweep.py filter     <module> ... [-j N]   stage 1: run the repository's own test suite on every mutant
                                                           (copy of the tree under /tmp); survivors are "realistic" changes
  tools/mutation_sweep.py check      <module> ... [-j N]   stage 2: run the quick checks that own the module on every survivor
                                                           (VERIF_REPO=<copy>), stopping at the first check that reports a VIOLATION
  tools/mutation_sweep.py report                           summary of mutants/sweep.json

State is kept in /verif/mutants/sweep.json (resumable).  Nothing is ever written to /repo; the copies live under /tmp and are
removed after each mutant.
"""
import ast
import concurrent.futures as cf
import json
import os
import shutil
import subprocess
import sys
import tempfile
import time

VERIF = os.path.dirname(os.path.dirname(os.path.abspath(__file__)))
STATE = os.path.join(VERIF, 'mutants', 'sweep.json')
REPO = '/repo'
CHECKS = {'encoder': ['C02', 'C03', 'C13', 'C07', 'C01', 'C05', 'C04', 'C06', 'C08', 'C14'],
          'utils': ['C11', 'C09', 'C10', 'C12', 'C14'],
          'writers': ['C11', 'C09', 'C10', 'C12', 'C14'],
          'helpers': ['C16', 'C14'],
          '__init__': ['C12', 'C09', 'C01', 'C14', 'C08', 'C11'],
          'cli': ['C12', 'C14'],
          'consts': ['C02', 'C03', 'C13', 'C01', 'C04']}
SWAP = {ast.Lt: ast.LtE, ast.LtE: ast.Lt, ast.Gt: ast.GtE, ast.GtE: ast.Gt, ast.Eq: ast.NotEq, ast.NotEq: ast.Eq,
        ast.In: ast.NotIn, ast.NotIn: ast.In, ast.Is: ast.IsNot, ast.IsNot: ast.Is}


def sites(tree):
    """yields (id, description, apply) - apply mutates the tree in place and returns an undo function"""
    for node in ast.walk(tree):
        if isinstance(node, ast.Compare):
            for i, op in enumerate(node.ops):
                new = SWAP.get(type(op))
                if new is not None:
                    yield ('%d:%d:cmp%d' % (node.lineno, node.col_offset, i), '%s -> %s' % (type(op).__name__, new.__name__), (node, 'ops', i, new()))
            for j, c in enumerate([node.left] + node.comparators):
                if isinstance(c, ast.Constant) and isinstance(c.value, int) and not isinstance(c.value, bool):
                    yield ('%d:%d:const%d' % (node.lineno, node.col_offset, j), 'constant %d -> %d' % (c.value, c.value + 1), (c, 'value', None, c.value + 1))
        elif isinstance(node, ast.BoolOp):
            new = ast.Or if isinstance(node.op, ast.And) else ast.And
            yield ('%d:%d:bool' % (node.lineno, node.col_offset), '%s -> %s' % (type(node.op).__name__, new.__name__), (node, 'op', None, new()))
        elif isinstance(node, ast.UnaryOp) and isinstance(node.op, ast.Not):
            yield ('%d:%d:not' % (node.lineno, node.col_offset), 'not dropped', (node, 'op', None, ast.UAdd()))


def mutated_source(module, mid):
    src = open(os.path.join(REPO, 'segno', module + '.py')).read()
    tree = ast.parse(src)
    for sid, desc, (node, attr, idx, new) in sites(tree):
        if sid == mid:
            if isinstance(new, ast.UAdd):
                # `not x` -> `bool(x)` (keeps the type of the expression)
                node.__class__ = ast.Call
                operand = node.operand
                node.func = ast.Name('bool', ast.Load())
                node.args = [operand]
                node.keywords = []
            elif idx is None:
                setattr(node, attr, new)
            else:
                getattr(node, attr)[idx] = new
            return ast.unparse(ast.fix_missing_locations(tree)) + '\n', desc
    raise KeyError(mid)


def enumerate_mutants(module):
    src = open(os.path.join(REPO, 'segno', module + '.py')).read()
    lines = src.splitlines()
    tree = ast.parse(src)
    # map line -> enclosing function for the report
    owner = {}
    for node in ast.walk(tree):
        if isinstance(node, (ast.FunctionDef, ast.ClassDef)):
            for ln in range(node.lineno, (node.end_lineno or node.lineno) + 1):
                owner.setdefault(ln, []).append(node.name)
    out = []
    for sid, desc, _ in sites(tree):
        ln = int(sid.split(':')[0])
        out.append({'id': '%s:%s' % (module, sid), 'module': module, 'what': desc, 'line': lines[ln - 1].strip()[:120], 'where': '.'.join(owner.get(ln, ['<module>'])[-2:])})
    return out


def load():
    return json.load(open(STATE)) if os.path.exists(STATE) else {}


def save(state):
    tmp = STATE + '.tmp'
    json.dump(state, open(tmp, 'w'), indent=1, sort_keys=True)
    os.replace(tmp, STATE)


def make_copy(module, mid):
    tmp = tempfile.mkdtemp(prefix='segno-sweep-', dir='/tmp')
    repo = os.path.join(tmp, 'repo')
    shutil.copytree(REPO, repo, ignore=shutil.ignore_patterns('.git', '__pycache__', '.pytest_cache', '*.egg-info'))
    src, _ = mutated_source(module, mid)
    open(os.path.join(repo, 'segno', module + '.py'), 'w').write(src)
    return tmp, repo


def stage_filter(m, nproc):
    module, mid = m['module'], m['id'].split(':', 1)[1]
    tmp, repo = make_copy(module, mid)
    try:
        r = subprocess.run(['/venv/bin/python', '-c', 'import sys; sys.path.insert(0, %r); import segno, segno.cli, segno.helpers' % repo], capture_output=True, text=True)
        if r.returncode != 0:
            return 'does-not-import'
        r = subprocess.run(['/venv/bin/python', '-m', 'pytest', '-q', '-x', '-p', 'no:cacheprovider', '-n', str(nproc), '--timeout=300'], cwd=repo,
                           capture_output=True, text=True, env=dict(os.environ, PYTHONDONTWRITEBYTECODE='1'), timeout=1200)
        return 'survived' if r.returncode == 0 else 'killed-by-tests'
    except subprocess.TimeoutExpired:
        return 'killed-by-tests'
    finally:
        shutil.rmtree(tmp, ignore_errors=True)


def stage_check(m):
    module, mid = m['module'], m['id'].split(':', 1)[1]
    tmp, repo = make_copy(module, mid)
    try:
        tried = []
        for c in CHECKS[module]:
            env = dict(os.environ, VERIF_REPO=repo, VERIF_CONFIRM='0', VERIF_EVIDENCE_DIR=os.path.join(tmp, 'ev'), VERIF_REPLAY_DIR=os.path.join(tmp, 'rp'))
            env.pop('VERIF_FOCUS', None)
            try:
                r = subprocess.run([os.path.join(VERIF, 'check'), c, '--tier', 'quick'], capture_output=True, text=True, env=env, cwd=VERIF, timeout=1800)
            except subprocess.TimeoutExpired:
                return {'verdict': 'detected', 'by': c, 'how': 'check did not terminate within 30 min (hang in the library)', 'tried': tried}
            tried.append(c)
            first = next((ln for ln in r.stdout.splitlines() if ln.startswith('VIOLATION')), '')
            if r.returncode == 1 and first:
                return {'verdict': 'detected', 'by': c, 'how': first[first.find('key='):][:160], 'tried': tried}
            if r.returncode == 2:
                err = next((ln for ln in r.stdout.splitlines() if 'CHECKER-ERROR' in ln), r.stderr[-200:])
                return {'verdict': 'checker-error', 'by': c, 'how': err[:200], 'tried': tried}
        return {'verdict': 'missed', 'tried': tried}
    finally:
        shutil.rmtree(tmp, ignore_errors=True)


def main():
    args = sys.argv[1:]
    jobs = 2
    if '-j' in args:
        i = args.index('-j')
        jobs = int(args[i + 1])
        del args[i:i + 2]
    cmd, modules = args[0], args[1:]
    state = load()
    if cmd == 'enumerate':
        for mod in modules:
            for m in enumerate_mutants(mod):
                state.setdefault(m['id'], m)
        save(state)
        print('%d mutants known' % len(state))
    elif cmd == 'filter':
        todo = [m for m in state.values() if m['module'] in modules and 'tests' not in m]
        print('stage 1: %d mutants' % len(todo), flush=True)
        nproc = max(2, 16 // jobs)
        with cf.ThreadPoolExecutor(jobs) as ex:
            futs = {ex.submit(stage_filter, m, nproc): m for m in todo}
            for k, f in enumerate(cf.as_completed(futs)):
                m = futs[f]
                m['tests'] = f.result()
                print('%4d/%d %-26s %-16s %s | %s' % (k + 1, len(todo), m['id'], m['tests'], m['what'], m['line'][:70]), flush=True)
                if k % 10 == 9:
                    save(state)
        save(state)
    elif cmd == 'check':
        todo = [m for m in state.values() if m['module'] in modules and m.get('tests') == 'survived' and 'result' not in m and not m.get('stale')]
        print('stage 2: %d survivors' % len(todo), flush=True)
        with cf.ThreadPoolExecutor(jobs) as ex:
            futs = {ex.submit(stage_check, m): m for m in todo}
            for k, f in enumerate(cf.as_completed(futs)):
                m = futs[f]
                m['result'] = f.result()
                print('%4d/%d %-26s %-9s %-4s %s | %s | %s' % (k + 1, len(todo), m['id'], m['result']['verdict'], m['result'].get('by', ''), m['what'], m['line'][:60],
                                                              m['result'].get('how', '')[:80]), flush=True)
                save(state)
    elif cmd == 'report':
        by = {}
        for m in state.values():
            if m.get('stale'):
                continue            # (the line was changed by a later repair of the library; the mutant no longer exists)
            r = by.setdefault(m['module'], {'mutants': 0, 'killed-by-tests': 0, 'does-not-import': 0, 'survived': 0, 'detected': 0, 'missed': 0, 'equivalent': 0, 'pending': 0})
            r['mutants'] += 1
            if 'tests' not in m:
                r['pending'] += 1
                continue
            r[m['tests']] += 1
            if m['tests'] == 'survived':
                if 'result' not in m:
                    r['pending'] += 1
                elif m.get('triage', '').startswith('equivalent'):
                    r['equivalent'] += 1
                else:
                    r[m['result']['verdict'] if m['result']['verdict'] in r else 'missed'] += 1
        for mod, r in sorted(by.items()):
            print(mod, r)
        for m in sorted(state.values(), key=lambda m: m['id']):
            if m.get('result', {}).get('verdict') in ('missed', 'checker-error'):
                print('  %-9s %-26s %-22s %-24s %s   %s' % (m['result']['verdict'], m['id'], m['where'][:22], m['what'], m['line'][:70], m.get('triage', '')))
    else:
        raise SystemExit(__doc__)


if __name__ == '__main__':
    main()
