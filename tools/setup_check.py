#!/venv/bin/python
"""setup_cmd: nothing to build (pure Python, stdlib only).  Verifies the interpreter, that the library under
test imports from /repo, and runs the oracle self-test on the ISO fixtures."""
import os
import sys

VERIF = os.path.dirname(os.path.dirname(os.path.abspath(__file__)))
repo = os.path.realpath(os.environ.get('VERIF_REPO', '/repo'))
sys.path.insert(0, VERIF)
sys.path.insert(0, repo)
sys.dont_write_bytecode = True
import segno  # noqa: E402
assert os.path.realpath(segno.__file__).startswith(repo + os.sep), segno.__file__
from mc import selftest  # noqa: E402
selftest.run()
for d in ('evidence', 'replays'):
    os.makedirs(os.path.join(VERIF, d), exist_ok=True)
print('setup ok: python %s, segno %s from %s' % (sys.version.split()[0], segno.__version__, segno.__file__))
