#!/usr/bin/env python3
"""Table-cell coverage audit: every cell of the library's lookup tables is changed in turn (in a throw-away copy of
the package under /tmp) and the quick check that owns the table must report a violation.

  tools/table_audit.py [table ...]      tables: capacity ecc align format version genpoly cci term eci galois names alpha

A cell mutant is produced by appending a statement to the copy's consts.py / writers.py, e.g.
`SYMBOL_CAPACITY[33][ERROR_LEVEL_Q] += 8`.  To keep the audit fast the check is run with VERIF_FOCUS=<version> where a
cell belongs to one version (only the cases naming that version are generated - the same cases the full quick run
executes).  Results: /verif/mutants/table_audit.json (summary), one line per mutant on stdout.
"""
import json
import os
import shutil
import subprocess
import sys
import tempfile
import time

VERIF = os.path.dirname(os.path.dirname(os.path.abspath(__file__)))
sys.path.insert(0, '/repo')
from segno import consts, writers  # noqa: E402  (read-only: to enumerate the cells)

LV = {consts.ERROR_LEVEL_L: 'ERROR_LEVEL_L', consts.ERROR_LEVEL_M: 'ERROR_LEVEL_M', consts.ERROR_LEVEL_Q: 'ERROR_LEVEL_Q',
      consts.ERROR_LEVEL_H: 'ERROR_LEVEL_H', None: 'None'}
VNAME = {-3: 'M1', -2: 'M2', -1: 'M3', 0: 'M4'}


def vname(v):
    return VNAME.get(v, v)


def tuple_set(name, idx, expr):
    return '%s = %s[:%d] + (%s,) + %s[%d:]' % (name, name, idx, expr, name, idx + 1)


def mutants(which):
    if 'capacity' in which:
        for i, (v, d) in enumerate(sorted(consts.SYMBOL_CAPACITY.items())):
            for j, lvl in enumerate(d):
                delta = (8, -8, 2, -1)[(i + j) % 4]
                yield ('capacity %s-%s %+d' % (vname(v), LV[lvl][-1], delta), 'consts', 'SYMBOL_CAPACITY[%d][%s] += %d' % (v, LV[lvl], delta), 'C04', vname(v))
    if 'ecc' in which:
        for v, d in sorted(((k, x) for k, x in consts.ECC.items() if isinstance(k, int))):
            for lvl, groups in d.items():
                if len(groups) == 2:
                    stmt = 'ECC[%d][%s] = (ECC[%d][%s][1], ECC[%d][%s][0])' % (v, LV[lvl], v, LV[lvl], v, LV[lvl])
                    what = 'groups swapped'
                else:
                    g = groups[0]
                    stmt = 'ECC[%d][%s] = (EC(%d, %d, %d),)' % (v, LV[lvl], g.num_blocks, g.num_total, g.num_data - 1)
                    what = 'data codewords - 1'
                yield ('ecc %s-%s %s' % (vname(v), LV[lvl][-1], what), 'consts', stmt, 'C03', vname(v))
    if 'align' in which:
        for i, row in enumerate(consts.ALIGNMENT_POS):
            k = 1 + i % (len(row) - 1)
            new = tuple(x + (2 if j == k else 0) for j, x in enumerate(row))
            yield ('alignment v%d coordinate %d +2' % (i + 2, k), 'consts', tuple_set('ALIGNMENT_POS', i, repr(new)), 'C02', i + 2)
    if 'format' in which:
        for i, w in enumerate(consts.FORMAT_INFO):
            yield ('format[%d] bit %d' % (i, i % 15), 'consts', tuple_set('FORMAT_INFO', i, hex(w ^ (1 << (i % 15)))), 'C02', None)
        for i, w in enumerate(consts.FORMAT_INFO_MICRO):
            yield ('format_micro[%d] bit %d' % (i, i % 15), 'consts', tuple_set('FORMAT_INFO_MICRO', i, hex(w ^ (1 << (i % 15)))), 'C02', None)
    if 'version' in which:
        for i, w in enumerate(consts.VERSION_INFO):
            yield ('version_info v%d bit %d' % (i + 7, i % 18), 'consts', tuple_set('VERSION_INFO', i, hex(w ^ (1 << (i % 18)))), 'C02', i + 7)
    if 'genpoly' in which:
        for d, poly in sorted(consts.GEN_POLY.items()):
            k = d % len(poly)
            new = tuple((x + 1) % 255 if j == k else x for j, x in enumerate(poly))
            yield ('gen_poly[%d] coefficient %d' % (d, k), 'consts', 'GEN_POLY[%d] = %r' % (d, new), 'C03', None)
    if 'cci' in which:
        names = {consts.MODE_NUMERIC: 'MODE_NUMERIC', consts.MODE_ALPHANUMERIC: 'MODE_ALPHANUMERIC', consts.MODE_BYTE: 'MODE_BYTE',
                 consts.MODE_KANJI: 'MODE_KANJI', consts.MODE_HANZI: 'MODE_HANZI'}
        for mode, d in consts.CHAR_COUNT_INDICATOR_LENGTH.items():
            for rng in d:
                yield ('cci %s range %r +1' % (names[mode], rng), 'consts', 'CHAR_COUNT_INDICATOR_LENGTH[%s][%r] += 1' % (names[mode], rng),
                       'C01' if mode == consts.MODE_HANZI else 'C13', None)
    if 'term' in which:
        for k in consts.TERMINATOR_LENGTH:
            yield ('terminator[%r] +1' % (k,), 'consts', 'TERMINATOR_LENGTH[%r] += 1' % (k,), 'C13', None)
    if 'eci' in which:
        for k in consts.ECI_ASSIGNMENT_NUM:
            yield ('eci[%s] +1' % k, 'consts', 'ECI_ASSIGNMENT_NUM[%r] += 1' % k, 'C01', None)
    if 'galois' in which:
        for i in range(1, 256):
            yield ('galois_log[%d] +1' % i, 'consts', 'GALIOS_LOG = GALIOS_LOG[:%d] + ((GALIOS_LOG[%d] + 1) %% 255,) + GALIOS_LOG[%d:]' % (i, i, i + 1), 'C03', None)
        for i in range(0, 255):
            yield ('galois_exp[%d] ^1' % i, 'consts', 'GALIOS_EXP = type(GALIOS_EXP)(list(GALIOS_EXP[:%d]) + [GALIOS_EXP[%d] ^ 1] + list(GALIOS_EXP[%d:]))' % (i, i, i + 1), 'C03', None)
    if 'names' in which:
        for k in sorted(writers._NAME2RGB)[3::15]:
            yield ('colour %s blue channel ^4' % k, 'writers', '_NAME2RGB[%r] = _NAME2RGB[%r][:2] + (_NAME2RGB[%r][2] ^ 4,)' % (k, k, k), 'C09', None)
    if 'alpha' in which:
        for k in writers._ALPHA_COMMONS:
            yield ('alpha_commons[%d]' % k, 'writers', '_ALPHA_COMMONS[%d] = round(abs(_ALPHA_COMMONS[%d] - 0.1), 4)' % (k, k), 'C10', None)


def main():
    which = sys.argv[1:] or ['capacity', 'ecc', 'align', 'format', 'version', 'genpoly', 'cci', 'term', 'eci', 'galois', 'names', 'alpha']
    results = []
    t0 = time.time()
    for name, module, stmt, check, focus in mutants(which):
        tmp = tempfile.mkdtemp(prefix='segno-audit-', dir='/tmp')
        try:
            shutil.copytree('/repo/segno', os.path.join(tmp, 'segno'), ignore=shutil.ignore_patterns('__pycache__'))
            with open(os.path.join(tmp, 'segno', module + '.py'), 'a') as f:
                f.write('\n\n# --- table audit mutation ---\n' + stmt + '\n')
            env = dict(os.environ, VERIF_REPO=tmp, VERIF_CONFIRM='0', VERIF_EVIDENCE_DIR=os.path.join(tmp, 'ev'), VERIF_REPLAY_DIR=os.path.join(tmp, 'rp'))
            if focus is not None:
                env['VERIF_FOCUS'] = str(focus)
            else:
                env.pop('VERIF_FOCUS', None)
            t = time.time()
            r = subprocess.run([os.path.join(VERIF, 'check'), check, '--tier', 'quick'], capture_output=True, text=True, env=env, cwd=VERIF)
            detected = r.returncode == 1 and 'VIOLATION' in r.stdout
            verdict = 'DETECTED' if detected else ('CHECKER-ERROR' if r.returncode == 2 else 'MISSED')
            first = next((ln for ln in r.stdout.splitlines() if ln.startswith('VIOLATION')), '')
            print('%-9s %-4s %-44s %5.1fs  %s' % (verdict, check, name, time.time() - t, first[first.find('key='):][:110]), flush=True)
            results.append({'mutant': name, 'statement': stmt, 'check': check, 'focus': focus, 'verdict': verdict})
        finally:
            shutil.rmtree(tmp, ignore_errors=True)
    summary = {}
    for r in results:
        t = r['mutant'].split(' ')[0].split('[')[0]
        summary.setdefault(t, {'mutants': 0, 'detected': 0, 'missed': []})
        summary[t]['mutants'] += 1
        if r['verdict'] == 'DETECTED':
            summary[t]['detected'] += 1
        else:
            summary[t]['missed'].append([r['mutant'], r['verdict']])
    out = os.path.join(VERIF, 'mutants', 'table_audit.json')
    old = json.load(open(out)) if os.path.exists(out) else {}
    old.update(summary)
    json.dump(old, open(out, 'w'), indent=1, sort_keys=True)
    print('audit finished in %.0f s: %s' % (time.time() - t0, {k: '%d/%d' % (v['detected'], v['mutants']) for k, v in summary.items()}))


if __name__ == '__main__':
    main()
