#!/usr/bin/env python3
"""Prints the wall time / evaluations table of DESIGN.md section 10.1 from evidence/ (quick) and evidence_thorough/."""
import json
import os
V = os.path.dirname(os.path.dirname(os.path.abspath(__file__)))
print('| id | quick | thorough |')
print('|---|---|---|')
for i in range(1, 17):
    pid = 'C%02d' % i
    cells = []
    for d in ('evidence', 'evidence_thorough'):
        p = os.path.join(V, d, pid + '.json')
        if not os.path.exists(p):
            cells.append('-')
            continue
        e = json.load(open(p))
        c = e.get('coverage', {})
        ev = c.get('evaluations') or c.get('counters', {}).get('evaluations')
        extra = ''
        if pid == 'C15':
            extra = '; %s histories, %s schedules, %s long-history calls' % (c.get('explicit_histories'), c.get('schedules'), c.get('long_history_calls'))
        cells.append('%.0f s, %s evaluations%s' % (e.get('wall_s', 0), ev, extra))
    print('| %s | %s | %s |' % (pid, cells[0], cells[1]))
